#!/venv/bin/python
"""Runs checks against a scratch worktree of /repo with one seeded change applied (never touches /repo's working tree).
usage: tools/seedtest.py PATCH [PID ...] [--tier quick|thorough] [--seed N]
Prints per check: caught (exit 1 with VIOLATION), missed (exit 0), other."""
import json, os, subprocess, sys, tempfile, shutil

HERE = os.path.dirname(os.path.dirname(os.path.abspath(__file__)))


def main():
    args = sys.argv[1:]
    tier, seed = "quick", "0"
    if "--tier" in args:
        i = args.index("--tier"); tier = args[i + 1]; del args[i:i + 2]
    if "--seed" in args:
        i = args.index("--seed"); seed = args[i + 1]; del args[i:i + 2]
    patch, pids = os.path.abspath(args[0]), args[1:]
    wt = tempfile.mkdtemp(prefix="seedtest_wt_")
    out = tempfile.mkdtemp(prefix="seedtest_out_")
    os.rmdir(wt)
    subprocess.run(["git", "-C", "/repo", "worktree", "add", "--detach", wt, "HEAD"], check=True, capture_output=True)
    res = {}
    try:
        r = subprocess.run(["git", "-C", wt, "apply", patch], capture_output=True, text=True)
        if r.returncode != 0:
            print("patch does not apply:", r.stderr[:300]); return 2
        for pid in pids:
            env = dict(os.environ, VERIF_REPO=wt, VERIF_OUT=out)
            p = subprocess.run([os.path.join(HERE, "check"), pid, "--tier", tier, "--seed", seed], capture_output=True, text=True, env=env, cwd=HERE)
            sigs = sorted({l.strip()[5:] for l in p.stdout.splitlines() if l.strip().startswith("sig:")})
            verdict = "caught" if p.returncode == 1 and "VIOLATION" in p.stdout else "missed" if p.returncode == 0 else f"other(exit {p.returncode})"
            res[pid] = {"verdict": verdict, "sigs": sigs[:6], "tail": p.stdout.strip().splitlines()[-1:] }
            print(pid, verdict, sigs[:4], flush=True)
    finally:
        subprocess.run(["git", "-C", "/repo", "worktree", "remove", "--force", wt], capture_output=True)
        shutil.rmtree(out, ignore_errors=True)
    print(json.dumps(res))
    return 0


if __name__ == "__main__":
    sys.exit(main())
