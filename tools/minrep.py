#!/venv/bin/python
"""tools/minrep.py <PID> <replay.json> : shrink the SSB routine set of a replay file while the same violation signature fires"""
import importlib, json, sys
sys.path.insert(0, "/repo"); sys.path.insert(1, "/verif")
from vf import env; env.setup_paths(); env.quiet()
from vf import norm
from vf.runner import Acc
from vf.minimize import minimize_ssb
pid, path = sys.argv[1], sys.argv[2]
d = json.load(open(path))
mod = importlib.import_module(f"vf.props.{pid.lower()}")
sig = d["sig"]
def pred(spec):
    acc = Acc("/dev/null")
    mod.replay(dict(d["input"], spec=json.loads(json.dumps(spec))), acc)
    return any(v["sig"] == sig for v in acc.violations)
spec = d["input"]["spec"]
print("reproduces:", pred(spec))
m = minimize_ssb(json.loads(json.dumps(spec)), pred)
for r in m["routines"]:
    print(r["kind"], r["target"], r["name"])
    for o in r["ops"]: print("   ", o)
acc = Acc("/dev/null"); mod.replay(dict(d["input"], spec=m), acc)
for v in acc.violations: print(v["sig"], json.dumps(v["witness"])[:300]); print(v["input"].get("text"))
