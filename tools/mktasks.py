"""Writes /tmp/seed/<PID>/TASK.md (and a scratch worktree) for a round of seeding by sub-agents: usage tools/mktasks.py [PID ...]"""
import json, os, subprocess, glob, re
props=[json.loads(l) for l in open('/verif/properties.jsonl') if l.strip()]
import sys
ONLY=sys.argv[1:]
for p in props:
    pid=p["id"]
    if ONLY and pid not in ONLY: continue
    prev=[]
    for d in sorted(glob.glob(f"/verif/seeded/{pid}-m*/meta.json")):
        m=json.load(open(d)); s=(m.get("agent_meta",{}).get("summary") or "").strip()
        if s: prev.append("- "+s[:200])
    ks=[int(re.search(r"-m(\d+)$",x).group(1)) for x in glob.glob(f"/verif/seeded/{pid}-m*")]
    KA=max(ks+[0])+1; KB=KA+1
    d=f"/tmp/seed/{pid}"
    os.makedirs(d+"/out", exist_ok=True); os.makedirs(d+"/tmp", exist_ok=True)
    wt=f"/tmp/seed/{pid}/wt"
    if not os.path.isdir(wt):
        subprocess.run(["git","-C","/repo","worktree","add","--detach",wt,"HEAD"],check=True,capture_output=True)
    anchors=", ".join(p["anchors"]["files"][:16])
    open(d+"/TASK.md","w").write(f"""# Task: seed defects that break one property (eighth round: something new again)

You are given a scratch git worktree of the Python project ExplorerScript (a compiler and decompiler for a scripting
language that targets "SSB" bytecode) at `{wt}` (detached HEAD). Work ONLY inside `{wt}`, `/tmp/seed/{pid}/out` and
`/tmp/seed/{pid}/tmp` (put ALL scratch files there and set TMPDIR=/tmp/seed/{pid}/tmp for your runs; never write directly
into /tmp). Do not read or touch `/verif`, `/repo`, or other directories under `/tmp/seed`. There is no network.
NEVER use `git stash` (shared between worktrees): use `git -C {wt} diff > file`, `git -C {wt} checkout -- .`,
`git -C {wt} apply file`; for an untouched copy of the original: `mkdir -p /tmp/seed/{pid}/tmp/orig && git -C {wt} archive HEAD | tar -x -C /tmp/seed/{pid}/tmp/orig`.
Use `/venv/bin/python`. To import your modified tree: `cd {wt} && PYTHONPATH={wt} /venv/bin/python ...` (check with
`python -c "import explorerscript; print(explorerscript.__file__)"`). Keep CPU use moderate (no campaigns over thousands of
programs) and finish within about 15 minutes.

## The property (users rely on it; it must hold for every input / history / schedule)

**{pid}: {p['title']}**

{p['statement']}

Quantified over: {p['quantifier']['text']}

Code the property is anchored in (relative to the worktree): {anchors}

## Changes seeded in earlier rounds (every one of them was detected by an automatic checker) - do NOT repeat these mechanisms

{chr(10).join(prev)}

## What to produce

TWO independent changes (mutants m{KA} and m{KB}) that break the property through a mechanism and at a code site DIFFERENT from
everything in the list above (and from each other). Look for what the list still leaves out: language constructs, opcode
families, parameter kinds or option combinations nobody touched yet; interactions of two features; limits and sizes; error
paths that recover; ordering assumptions; platform differences; state that lives longer than one call; code shared with
another feature. Each is a small, realistic source change (a slip a maintainer could make in a refactoring, clean-up or
optimisation) with:

1. the project still imports and the existing test suite passes: `cd {wt} && /venv/bin/python -m pytest -q -p no:cacheprovider` (111 tests);
2. a concrete input / call sequence / schedule on which the modified code violates the property while the unmodified code satisfies it;
3. no violation on trivial or the most typical inputs, no wholesale breakage;
4. no edits to tests, docs or generated parser files under explorerscript/antlr/, no new dependencies.

For each mutant k in ({KA}, {KB}) write into `/tmp/seed/{pid}/out/`:
- `m<k>.diff` : `git -C {wt} diff` for that mutant alone relative to HEAD (one at a time; `git -C {wt} checkout -- .` in between);
- `m<k>_demo.py` : self-contained script that imports `explorerscript` from PYTHONPATH, prints what it observes, exits 1 when the
  violation shows (mutated tree) and 0 when the property holds on that input (unmodified tree). Run it on both trees to confirm;
- `m<k>.json` : {{"id": "{pid}-m<k>", "property": "{pid}", "summary": "...one line...", "mechanism": "...", "trigger": "...", "files": [...], "tests_pass": true, "demo_exit_mutated": 1, "demo_exit_original": 0}}

Leave the worktree clean (`git -C {wt} status --short` empty) and remove your scratch files. In your final answer list the two
mutants with one line each and say whether each demo behaved as required on both trees.
""")
print("ok")