#!/venv/bin/python
"""Imports the seeded changes a sub-agent left in /tmp/seed/<PID>/out into /verif/seeded/<PID>-m<k>/ after confirming them:
the patch applies to /repo HEAD (on a scratch worktree), the 111 tests still pass, the demo exits 1 on the changed tree and 0 on
the unchanged one. Then runs the property's quick check (and optionally more checks / the thorough tier) against the changed tree.
usage: tools/seedimport.py PID [--also C02,C06] [--thorough]"""
import json, os, shutil, subprocess, sys, tempfile, time

HERE = os.path.dirname(os.path.dirname(os.path.abspath(__file__)))
PY = "/venv/bin/python"


def sh(cmd, **kw):
    return subprocess.run(cmd, capture_output=True, text=True, **kw)


def run_check(pid, wt, out, tier, seed="0"):
    env = dict(os.environ, VERIF_REPO=wt, VERIF_OUT=out)
    t = time.time()
    p = sh([os.path.join(HERE, "check"), pid, "--tier", tier, "--seed", seed], env=env, cwd=HERE)
    sigs = sorted({l.strip()[5:] for l in p.stdout.splitlines() if l.strip().startswith("sig:")})
    verdict = "caught" if p.returncode == 1 and "VIOLATION" in p.stdout else "missed" if p.returncode == 0 else f"other(exit {p.returncode})"
    return {"verdict": verdict, "tier": tier, "signatures": sigs[:8], "wall_s": round(time.time() - t, 1)}


def main():
    args = sys.argv[1:]
    also, thorough = [], False
    if "--also" in args:
        i = args.index("--also"); also = args[i + 1].split(","); del args[i:i + 2]
    if "--thorough" in args:
        thorough = True; args.remove("--thorough")
    pid = args[0]
    only = args[1:] or None
    src = f"/tmp/seed/{pid}/out"
    for k in range(1, 20):
        name = f"m{k}"
        if only and name not in only:
            continue
        patch = os.path.join(src, f"{name}.diff")
        if not os.path.exists(patch):
            continue
        demo = os.path.join(src, f"{name}_demo.py")
        meta = {}
        try:
            meta = json.load(open(os.path.join(src, f"{name}.json")))
        except Exception:
            pass
        wt = tempfile.mkdtemp(prefix="seedimp_wt_"); os.rmdir(wt)
        out = tempfile.mkdtemp(prefix="seedimp_out_")
        sh(["git", "-C", "/repo", "worktree", "add", "--detach", wt, "HEAD"])
        rec = {"id": f"{pid}-{name}", "property": pid, "agent_meta": meta}
        try:
            a = sh(["git", "-C", wt, "apply", patch])
            rec["applies_to_repo_head"] = a.returncode == 0
            if a.returncode != 0:
                a = sh(["git", "-C", wt, "apply", "--3way", patch])
                rec["applies_with_3way"] = a.returncode == 0
                if a.returncode != 0:
                    rec["confirmed"] = False
                    print(pid, name, "patch does not apply", a.stderr[:200]); continue
                # store the diff against the current head instead
                d = sh(["git", "-C", wt, "diff", "HEAD"]).stdout
                patch = os.path.join(out, "rebased.diff"); open(patch, "w").write(d)
            t = sh([PY, "-m", "pytest", "-q", "-p", "no:cacheprovider", "-x"], cwd=wt)
            rec["tests_pass_with_change"] = t.returncode == 0
            rec["tests_tail"] = t.stdout.strip().splitlines()[-1:] if t.stdout else []
            if os.path.exists(demo):
                try:
                    dm = sh([PY, demo], env=dict(os.environ, PYTHONPATH=wt), cwd=wt, timeout=300)
                    do = sh([PY, demo], env=dict(os.environ, PYTHONPATH="/repo"), cwd="/repo", timeout=300)
                    rec["demo_exit_changed"], rec["demo_exit_unchanged"] = dm.returncode, do.returncode
                    rec["demo_output_changed"] = dm.stdout[-600:]
                except subprocess.TimeoutExpired:
                    rec["demo_exit_changed"] = "timeout"
            rec["confirmed"] = bool(rec.get("tests_pass_with_change") and rec.get("demo_exit_changed") == 1 and rec.get("demo_exit_unchanged") == 0)
            rec["checks"] = {}
            for p in [pid] + also:
                rec["checks"][p] = run_check(p, wt, out, "quick")
                if rec["checks"][p]["verdict"] != "caught" and thorough and p == pid:
                    rec["checks"][p + ":thorough"] = run_check(p, wt, out, "thorough")
            dst = os.path.join(HERE, "seeded", f"{pid}-{name}")
            os.makedirs(dst, exist_ok=True)
            shutil.copy(patch, os.path.join(dst, "patch.diff"))
            if os.path.exists(demo):
                shutil.copy(demo, os.path.join(dst, "demo.py"))
            json.dump(rec, open(os.path.join(dst, "meta.json"), "w"), indent=1)
            print(pid, name, "confirmed" if rec["confirmed"] else "NOT-CONFIRMED", {k: v["verdict"] for k, v in rec["checks"].items()},
                  "|", (meta.get("summary") or "")[:100], flush=True)
        finally:
            sh(["git", "-C", "/repo", "worktree", "remove", "--force", wt])
            shutil.rmtree(out, ignore_errors=True)


if __name__ == "__main__":
    main()
