#!/venv/bin/python
"""Regenerates section 8 of DESIGN.md (which seeded change is caught by which check) from seeded/*/meta.json."""
import json, os, re
HERE = os.path.dirname(os.path.dirname(os.path.abspath(__file__)))
rows = []
n = caught = noted = 0
for name in sorted(os.listdir(os.path.join(HERE, "seeded"))):
    mp = os.path.join(HERE, "seeded", name, "meta.json")
    if not os.path.exists(mp):
        continue
    m = json.load(open(mp))
    res = m.get("final") or m.get("checks") or {}
    summ = (m.get("agent_meta", {}).get("summary") or "").replace("|", "\\|")
    if len(summ) > 210:
        summ = summ[:207] + "..."
    cells = []
    ok = False
    for k, v in res.items():
        if not isinstance(v, dict):
            continue
        sig = (v.get("signatures") or [""])[0][:70].replace("|", "\\|")
        cells.append(f"{k}: **{v['verdict']}**" + (f" `{sig}`" if sig else ""))
        ok = ok or v["verdict"] == "caught"
    if not cells or (not ok and m.get("note")):
        cells = [m.get("note", "patch no longer applies")[:520].replace("|", "\\|")]
        noted += 1
    n += 1
    caught += ok
    first = m.get("checks", {}).get(m["property"], {}).get("verdict")
    hist = "" if first in (None, "caught") else " (missed when first imported; check strengthened)"
    rows.append(f"| {name} | {summ} | {'; '.join(cells)}{hist} |")
begin, end = "<!-- SEEDED-TABLE-BEGIN -->\n", "<!-- SEEDED-TABLE-END -->\n"
table = begin + f"{n} seeded changes, {caught} detected by the quick tier (seed 0) of at least one check, {noted} others explained in their rows.\n\n| id | change (the author's one-line summary) | quick tier of the property's check (and of related checks) |\n|----|------|------|\n" + "\n".join(rows) + "\n" + end
p = os.path.join(HERE, "DESIGN.md")
s = open(p).read()
i, j = s.index(begin), s.index(end) + len(end)
open(p, "w").write(s[:i] + table + s[j:])
print(n, caught)
