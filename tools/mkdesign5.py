#!/venv/bin/python
"""Regenerates section 5.1 of DESIGN.md (table of repaired defects) from known_findings.json."""
import json, os, re
HERE = os.path.dirname(os.path.dirname(os.path.abspath(__file__)))
s = open(os.path.join(HERE, 'DESIGN.md')).read()
d = json.load(open(os.path.join(HERE, 'known_findings.json')))
rows = []
for e in d['findings']:
    if e['status'].startswith('fixed'):
        props = ",".join(e.get('properties') or [e.get('property')])
        rec = e['record'].split(' ', 3)[3] if e.get('record') else e['mechanism']
        rec = rec.replace('|', '\\|')
        rows.append("| %s | %s | `%s` | %s |" % (e['id'], props, e['status'][7:], rec))
begin = "<!-- FIXED-TABLE-BEGIN -->\n"
end = "<!-- FIXED-TABLE-END -->\n"
table = begin + "| id | property | commit | what failed |\n|----|----------|--------|-------------|\n" + "\n".join(rows) + "\n" + end
i, j = s.index(begin), s.index(end) + len(end)
open(os.path.join(HERE, 'DESIGN.md'), 'w').write(s[:i] + table + s[j:])
print(len(rows), "rows")
