#!/venv/bin/python
"""Generates /verif/MANIFEST.json from the table below (so that it always validates)."""
import json
import os

HERE = os.path.dirname(os.path.dirname(os.path.abspath(__file__)))

CHECKS = {
    # pid: (category, technique, level text, level note, design ref)
    "C01": ("translation_validation",
            "runtime monitoring: lock-step reference-model monitor (M-REF vs M-SSB product) over generated compilations",
            "Every generated program is compiled by the real compiler and each compiled routine is run in lock step with "
            "an independent reference semantics under every outcome of every test (complete over paths for that "
            "program); the claim over the program space is sampling (shape catalogue + random programs).",
            "Trusts vf/esast.py (reference semantics from docs/language_spec.rst), vf/lts.py (SSB machine), CPython.",
            "DESIGN.md 3/C01"),
    "C03": ("exploration",
            "runtime monitoring: icontract post-condition (K-COMPILE) on the real compile methods over generated and hostile inputs",
            "The closedness post-condition is evaluated by a contract on ExplorerScriptSsbCompiler.compile and "
            "SsbScriptSsbCompiler.compile on every successful compilation of the workload (G-EXPS, its SsbScript "
            "spelling, degenerate / corrupted / token-soup inputs that happen to be accepted). Sampling of the input space.",
            "Trusts the own jump-kind table in vf/lts.py and icontract.",
            "DESIGN.md 3/C03"),
    "C10": ("exploration",
            "runtime monitoring: exception classifier wrapped around the real compile methods + acceptance monitor over G-INVALID",
            "Every compile call of the workload runs under a wrapper that classifies the exit (return / documented "
            "exception / anything else); inputs with one injected static violation must not return. Sampling: one "
            "injection per kind per generated program, degenerate catalogue, corruptions, token soup, import layouts on disk.",
            "An injected program counts as meaningless only if the independent reference semantics rejects it as well.",
            "DESIGN.md 3/C10"),
    "C14": ("exploration",
            "runtime monitoring: icontract snapshot+post-condition on SourceMap.rewrite_offsets against a reference, round-trip monitor on serialize",
            "The real SourceMap objects produced by the compilers / decompilers and random well-typed maps are serialised "
            "and rewritten through random injective mappings; contracts on the real methods compare every result with a "
            "15-line reference and with the reloaded map field by field.",
            "Trusts the reference expected_rewrite in vf/monitors.py and icontract's OLD snapshot.",
            "DESIGN.md 3/C14"),
    "C16": ("exploration",
            "runtime monitoring: recorded compilation results of re-spelled sources compared offline",
            "Each generated program is re-spelled (hostile layout, comments at every token boundary, alternative literal and "
            "keyword forms) and compiled by the real compiler; ops with raw offsets, routine tables and position marks must "
            "be identical to those of the canonical spelling; every program is also compiled in a one-line spelling, and some shards write "
            "the same position mark at several places. Macro layouts whose imported files are re-spelled are compiled in this process and in a "
            "child interpreter whose default encoding is ASCII (C locale).",
            "Trusts my token printer: separators are only dropped where tokens cannot glue; string re-spellings only when my decoder agrees.",
            "DESIGN.md 3/C16"),
    "C17": ("exploration",
            "runtime monitoring: offline checker over the recorded token stream of the real Pygments lexer",
            "Random Unicode strings, token soup and program texts are lexed with the real lexer class; the recorded stream must "
            "concatenate to the input with contiguous indices within a logical token bound, and contain no error token for "
            "compiler-accepted sources. Two token streams of one lexer object consumed alternately must equal the streams consumed alone.",
            "Pygments' default input preprocessing is re-implemented from its documentation for get_tokens().",
            "DESIGN.md 3/C17"),
    "C04": ("exploration",
            "runtime monitoring: value round-trip monitor through the real decompilers and compilers in every printing context; literal decoding against own decoders",
            "Hostile parameter values are planted into compiled templates, printed by the real decompilers at nesting depth 0-4 in "
            "each printing context and compiled back by the real compilers; literal spellings are compiled and compared with my "
            "decoders of the documented rules. Sampling of the value space; known losses are matched by an executable defect model.",
            "Trusts vf/t2a.py decoders; offsets 2 and 4 of position marks are identified; dungeon mode 0..3 may return as constant.",
            "DESIGN.md 3/C04"),
    "C07": ("translation_validation",
            "runtime monitoring: recorded round trip SsbScriptSsbDecompiler -> SsbScriptSsbCompiler compared in positional normal form",
            "Random SSB routine sets and renumbered compiler outputs are spelled as SsbScript by the real decompiler and compiled "
            "back; the positional normal form (ops, parameters, jump targets as routine/index, routine tables) must be identical.",
            "String losses are only excused by the C04 defect model (K01) when the observed value is the predicted one.",
            "DESIGN.md 3/C07"),
    "C18": ("exploration",
            "runtime monitoring: listing of the real PositionMarkVisitor compared with the printer's recorded positions; edit clause by recompilation",
            "Programs rich in Position literals are printed in hostile layouts by my printer, which records where each literal "
            "starts and ends; the real listing must agree in count, order, spans and values, and replacing a listed span by an "
            "edited mark must change exactly that parameter of the recompiled program. Programs in which earlier literals are written "
            "again at later places are part of the workload.",
            "Trusts my renderer's line/column bookkeeping (cross-checked by the edit clause hitting the right text).",
            "DESIGN.md 3/C18"),
    "C02": ("translation_validation",
            "runtime monitoring: lock-step product monitor between the input SSB machine and (a) the emitted text read by the reference semantics, (b) the recompiled text",
            "Every structured answer of the real decompiler on well-formed routine sets is compiled again and compared with the "
            "input under every outcome of every test, both as read by an independent reference semantics (T2A + M-REF) and as "
            "recompiled. Strict on structured classes (shape catalogue, flat programs, compiled label-free programs); on "
            "unstructured classes mis-structuring is the open finding K05 (printed, not counted).",
            "Trusts M-REF, T2A (repo grammar for the tree shape), M-SSB; dungeon-mode 0..3 <-> constant tolerated as the property allows.",
            "DESIGN.md 3/C02"),
    "C06": ("exploration",
            "runtime monitoring: K-DECOMPILE wrapper on the real convert() (exceptions, result type, marker), fallback exactness by recompiling, sys.monitoring step counter as bounded-progress oracle",
            "Well-formed routine sets of four kinds (compiler-shaped, re-laid-out, random flow graphs, special opcodes) are "
            "converted once each under the monitor; an exception, a runaway call (step bound), a malformed marker or a "
            "fallback text that does not reproduce the input op for op is a violation. A fifth class forces the fallback (an op no pass can place) on "
            "random flow graphs with jumps between routines in both directions.",
            "'Always answers' is restated as a step bound measured on the unchanged tree (x200); worker crashes inside an announced call count as 'did not answer'.",
            "DESIGN.md 3/C06"),
    "C13": ("exploration",
            "runtime monitoring: tree query (T2A) over the text the real decompiler emits for compiled flat programs",
            "Random flat structured programs and a small grammar enumerated completely (every listed block shape alone and every "
            "ordered pair) are compiled and decompiled by the real tools; the emitted text must not be a fallback, its parse "
            "tree must contain no jump statement and every plain statement of the source exactly once.",
            "'any headers' read as: every switch header kind with the case header kinds it takes (DESIGN.md 7).",
            "DESIGN.md 3/C13"),
    "C09": ("exploration",
            "runtime monitoring: offline checker over the recorded (text, source map) of both real decompilers: tree positions via T2A, recompile clause via the product pairing",
            "For every well-formed routine set of the workload the (text, map) pair the real convert() returns is checked entry by "
            "entry: key is an input offset, the position is the start of the statement printed for that op (identified on the "
            "parse tree), every own statement has an entry, and after compiling the text the paired op is on the same line.",
            "Trusts T2A positions (ANTLR token positions of the repo grammar) and the op pairing of the lock-step product.",
            "DESIGN.md 3/C09"),
    "C05": ("translation_validation",
            "runtime monitoring: lock-step product of the inlining reference semantics and the compiled routines over macro layouts on disk; sys.addaudithook on open for the files read",
            "Acyclic macro call graphs spread over seven directory layouts (./, ../, absolute, lookup paths with shadowing, diamond, "
            "nested) and every definition order of single-file macro sets are compiled by the real compiler; behaviour must equal "
            "the program with every call inlined, the files opened (audit hook) must be exactly those my resolver predicts.",
            "Macro names unique per layout (clashes are not defined by the spec) except for lookup shadowing.",
            "DESIGN.md 3/C05"),
    "C08": ("exploration",
            "runtime monitoring: K-COMPILE totality contract + position oracle through the lock-step pairing of reference statements and compiled ops",
            "Programs are printed by my printer (canonical and random layouts, several statements per line), which records where "
            "every statement, header and call starts, also inside imported macro files; the pairing of the product monitor tells "
            "which statement / expansion produced each compiled op; entries, macro files, call positions, return addresses, the "
            "included usage map and the recorded position marks are compared.",
            "Several positions are accepted where the property says 'statement or header' (DESIGN.md 7); silent ops only need to point at some statement start.",
            "DESIGN.md 3/C08"),
    "C15": ("exploration",
            "runtime monitoring: both CLIs run as real subprocesses; recorded stdout / stderr / exit status checked offline against a JSON Schema transcribed from the docs, the API compilation and the reference semantics",
            "Generated programs (many with dropped ops, i.e. offset gaps; macro layouts with --lookup) are compiled by the compile "
            "command; its stdout must validate against the documented structure, every jump parameter must be the 1-based position "
            "of its target, and the decompile command must accept it and print a program behaving like the source. Documents written "
            "from the docs (all routine and argument types, numeric and string coordinates) must be accepted; invalid sources and "
            "malformed documents must exit non-zero without output; settings documents lacking a documented key may only give exit 0 "
            "together with the documented structure. The compile command is run again under other output encodings and must print the same bytes.",
            "Trusts my transcription of docs/cli_api_usage.rst into a JSON Schema; behaviour comparison only for the structured class.",
            "DESIGN.md 3/C15"),
    "C11": ("exploration",
            "runtime monitoring: recorded-history checker (every call of random call histories vs fresh-process goldens) + K-CACHE memo provenance monitor + class-level state invariant + K-CLOCK clock skew injection",
            "Random histories of compile / decompile calls in one process (reused compiler objects, input objects handed in again, failing "
            "and repeated inputs, gc and graph allocation bursts to recycle id()s) are recorded; every call's result record must equal the "
            "record a fresh interpreter computes for the same input. K-CACHE records for each memo dict the graph it was made for and "
            "re-computes every lookup answered from a dict inherited through a recycled id.",
            "Histories are sampled; id() recycling is provoked and counted, not forced. Failing calls are compared by exception type (the wording of ANTLR syntax errors depends on its prediction caches; variants are recorded in the evidence).",
            "DESIGN.md 3/C11"),
    "C12": ("exploration",
            "runtime monitoring: stress with schedule perturbation (K-SCHED: switch interval 1us + yield injection at sys.monitoring LINE / PY_START events in the code touching shared caches), client-boundary history checked offline against sequential goldens, K-CACHE, K-COLD (cold-start pause points inside the functions a state probe saw writing process-wide state), K-CLOCK (clock skew injection)",
            "2-16 barrier-started threads run compile / decompile jobs (any assignment, the same input on several threads, failing inputs) "
            "with the static ANTLR caches reset to their cold state before most schedules; each recorded call must return the record a fresh "
            "interpreter computes for its input and must not raise unless that one does. Evidence counts overlapping call pairs, thread "
            "switches observed at the instrumented sites, distinct interleaving signatures and injected yields per site. K-COLD: in fresh interpreters "
            "thread A is held at its n-th line inside each function during which a probe run saw module- or class-level state change, while thread B "
            "runs a whole call; K-CLOCK answers every clock reading of repository code one hour ahead of the previous one.",
            "Only GIL interleavings exist here; schedules are sampled. No compiler sanitizer applies (pure Python, no native code of the repo).",
            "DESIGN.md 3/C12"),
}

NOT_YET = {
}


def main():
    with open(os.path.join(HERE, "properties.jsonl")) as f:
        pids = [json.loads(l)["id"] for l in f if l.strip()]
    checks = []
    for pid in pids:
        if pid not in CHECKS:
            continue
        cat, tech, text, note, ref = CHECKS[pid]
        checks.append({
            "property_id": pid,
            "quick_cmd": f"./check {pid} --tier quick",
            "thorough_cmd": f"./check {pid} --tier thorough",
            "evidence_file": f"/verif/evidence/{pid}.json",
            "replay_cmd_template": f"./check {pid} --replay {{path}}",
            "engine": "vf",
            "level_claimed": {"category": cat, "text": text, "design_ref": ref},
            "level_note": note,
            "technique": tech,
        })
    na = [{"property_id": p, "reason": NOT_YET.get(p, "check not built yet in this round (planned, see DESIGN.md section 3)")}
          for p in pids if p not in CHECKS]
    man = {
        "version": 1,
        "setup_cmd": "/venv/bin/python -c \"import sys; sys.path.insert(0, '.'); from vf import env; env.ensure_deps()\"",
        "hooks": {
            "guard": "EXPLORERSCRIPT_VERIF",
            "enable": "no source hooks: all instrumentation is attached from the harness (attribute replacement, icontract "
                      "decorators, sys.monitoring); checks import /repo's working tree directly (editable install + PYTHONPATH)",
            "baseline_off_cmd": "cd /repo && /venv/bin/python -m pytest -ra -q -p no:cacheprovider --timeout=900 --continue-on-collection-errors",
            "source_commits": [],
            "add_only": True,
        },
        "engines": [{
            "name": "vf", "path": "/verif/vf", "serves_properties": [c["property_id"] for c in checks],
            "kind_free_text": "runtime monitoring harness: generators, reference models, monitors on the real entry points, "
                              "sharded subprocess workers, known-finding classifier, evidence writer",
        }],
        "checks": checks,
        "not_applicable": na,
        "notes": "Every check runs the real code of /repo's working tree under generated workloads with monitors attached; "
                 "see DESIGN.md. Exit 0 held / 1 VIOLATION / 3 inconclusive (reach floor not met).",
    }
    with open(os.path.join(HERE, "MANIFEST.json"), "w") as f:
        json.dump(man, f, indent=1)
    try:
        import sys
        sys.path.append(os.path.join(HERE, ".deps"))
        import jsonschema
        jsonschema.validate(man, json.load(open("/root/.vp/MANIFEST.schema.json")))
        print("MANIFEST.json valid;", len(checks), "checks,", len(na), "not_applicable")
    except ImportError:
        print("written (jsonschema not available)")


if __name__ == "__main__":
    main()
