#!/venv/bin/python
"""Re-runs every kept seeded change (seeded/<id>/patch.diff) against the quick check of its property (plus the checks named in
meta.json "also") on a scratch worktree of /repo HEAD, stores the outcome in meta.json["final"] and prints a markdown table."""
import json, os, subprocess, sys, tempfile, shutil, time

HERE = os.path.dirname(os.path.dirname(os.path.abspath(__file__)))


def sh(cmd, **kw):
    return subprocess.run(cmd, capture_output=True, text=True, **kw)


def main():
    only = sys.argv[1:]
    rows = []
    for name in sorted(os.listdir(os.path.join(HERE, "seeded"))):
        d = os.path.join(HERE, "seeded", name)
        mp = os.path.join(d, "meta.json")
        if not os.path.exists(mp) or (only and not any(name.startswith(o) for o in only)):
            continue
        meta = json.load(open(mp))
        pid = meta["property"]
        pids = [pid] + list(meta.get("also", []))
        wt = tempfile.mkdtemp(prefix="seedall_wt_"); os.rmdir(wt)
        out = tempfile.mkdtemp(prefix="seedall_out_")
        sh(["git", "-C", "/repo", "worktree", "add", "--detach", wt, "HEAD"])
        final = {}
        try:
            a = sh(["git", "-C", wt, "apply", os.path.join(d, "patch.diff")])
            if a.returncode != 0:
                final = {"applies": False}
            else:
                for p in pids:
                    env = dict(os.environ, VERIF_REPO=wt, VERIF_OUT=out)
                    t = time.time()
                    r = sh([os.path.join(HERE, "check"), p, "--tier", "quick"], env=env, cwd=HERE)
                    sigs = sorted({l.strip()[5:] for l in r.stdout.splitlines() if l.strip().startswith("sig:")})
                    v = "caught" if r.returncode == 1 and "VIOLATION" in r.stdout else "missed" if r.returncode == 0 else f"other(exit {r.returncode})"
                    final[p] = {"verdict": v, "signatures": sigs[:4], "wall_s": round(time.time() - t, 1)}
        finally:
            sh(["git", "-C", "/repo", "worktree", "remove", "--force", wt])
            shutil.rmtree(out, ignore_errors=True)
        meta["final"] = final
        json.dump(meta, open(mp, "w"), indent=1)
        print(name, {k: v.get("verdict") for k, v in final.items() if isinstance(v, dict)}, flush=True)
    # the table always lists every kept change (from the stored outcomes), also after a partial re-run
    for name in sorted(os.listdir(os.path.join(HERE, "seeded"))):
        mp = os.path.join(HERE, "seeded", name, "meta.json")
        if not os.path.exists(mp):
            continue
        meta = json.load(open(mp))
        final = meta.get("final") or meta.get("checks") or {}
        summ = (meta.get("agent_meta", {}).get("summary") or "").replace("|", "\\|")
        res = "; ".join(f"{k}: {v['verdict']}" + (f" (`{v['signatures'][0][:60]}`)" if isinstance(v, dict) and v.get("signatures") else "") for k, v in final.items() if isinstance(v, dict)) or "patch no longer applies (see note)"
        rows.append(f"| {name} | {summ[:170]} | {res} |")
    open(os.path.join(HERE, "seeded", "TABLE.md"), "w").write("| id | change | quick check of the property |\n|----|--------|------|\n" + "\n".join(rows) + "\n")


if __name__ == "__main__":
    main()
