"""T2A: ANTLR ExplorerScript parse tree (of emitted text) -> my AST, so that M-REF can "read the text
according to the language specification". Literal decoding is my own implementation of the documented
rules (docs/language_spec.rst), not the repo's. Trusts the repo's grammar for the tree shape."""
from __future__ import annotations

from vf.esast import PPL, SCN_BRANCH

COND = {"FALSE": 0, "TRUE": 1, "==": 2, ">": 3, "<": 4, ">=": 5, "<=": 6, "!=": 7, "&": 8, "^": 9, "&<<": 10}
ASG = {"=": 0, "-=": 1, "+=": 2, "*=": 3, "/=": 4}


class T2AError(Exception):
    pass


# ------------------------------------------------------------------ literal decoders (spec rules)
def dec_int(t: str) -> int:
    neg = t.startswith("-")
    b = t[1:] if neg else t
    if b[:2].lower() == "0x":
        v = int(b[2:], 16)
    elif b[:2].lower() == "0o":
        v = int(b[2:], 8)
    elif b[:2].lower() == "0b":
        v = int(b[2:], 2)
    else:
        v = int(b, 10)
    return -v if neg else v


def dec_single(t: str) -> str:
    """single line literal: \\" \\' unescape to the quote, \\n to a newline (language spec)."""
    body = t[1:-1]
    return body.replace('\\"', '"').replace("\\'", "'").replace("\\n", "\n")


def _indent_of(line: str) -> int:
    return len(line) - len(line.lstrip(" "))


def dec_multi(t: str) -> str:
    """multi line literal, dedent rules of the language spec (indentation = blanks)."""
    body = t[3:-3]
    # lines of the literal: the text between line breaks (also an empty last line after a final line break counts,
    # it is what "the last line ... only consists of whitespace characters" refers to)
    lines = body.replace("\r\n", "\n").split("\n")
    first = lines[0]
    if len(lines) == 1:
        return first
    rest = lines[1:]
    last = rest[-1]
    if last.strip(" ") == "":
        rest = rest[:-1]  # indentation fully removed -> empty -> removed
    least = min((_indent_of(l) for l in rest), default=0)
    rest = [l[least:] for l in rest]
    out = ([first] if first != "" else []) + rest
    return "\n".join(out)


def dec_fixed(t: str):
    neg = t.startswith("-")
    if neg:
        t = t[1:]
    w, f = t.split(".")
    w = w.lstrip("0") or "0"
    return ("fp", ("-" if neg else "") + w + "." + f)


def dec_posarg(ctx):
    if ctx.INTEGER():
        return dec_int(ctx.INTEGER().getText()), 0
    t = ctx.DECIMAL().getText()
    neg = t.startswith("-")
    if neg:
        t = t[1:]
    w, f = t.split(".")
    f = f.rstrip("0")
    if f not in ("", "5"):
        raise T2AError("bad position mark coordinate")
    v = int(w or "0")
    return (-v if neg else v), (2 if f == "5" else 0)


# ------------------------------------------------------------------------------------------ tree
def _P():
    from explorerscript.antlr.ExplorerScriptParser import ExplorerScriptParser

    return ExplorerScriptParser


def string_value(ctx):
    if ctx.STRING_LITERAL():
        return dec_single(ctx.STRING_LITERAL().getText())
    return dec_multi(ctx.MULTILINE_STRING_LITERAL().getText())


def string(ctx):
    if ctx.string_value():
        return ("str", string_value(ctx.string_value()))
    ls = ctx.lang_string()
    return ("lang", tuple((a.IDENTIFIER().getText(), string_value(a.string_value())) for a in ls.lang_string_argument()))


def integer_like(ctx):
    if ctx.INTEGER():
        return ("int", dec_int(ctx.INTEGER().getText()))
    if ctx.DECIMAL():
        return dec_fixed(ctx.DECIMAL().getText())
    if ctx.IDENTIFIER():
        return ("const", ctx.IDENTIFIER().getText())
    return ("const", ctx.VARIABLE().getText())


def position(ctx):
    name = dec_single(ctx.STRING_LITERAL().getText())
    (x, xo), (y, yo) = [dec_posarg(a) for a in ctx.position_marker_arg()]
    return ("pos", name, xo, yo, x, y)


def arg(ctx):
    if ctx.integer_like():
        return integer_like(ctx.integer_like())
    if ctx.string():
        return string(ctx.string())
    return position(ctx.position_marker())


def arglist(ctx):
    return [arg(a) for a in ctx.pos_argument()] if ctx else []


def operation(ctx):
    c = None
    if ctx.inline_ctx():
        h = ctx.inline_ctx().ctx_header()
        c = (h.IDENTIFIER().getText(), integer_like(h.integer_like()))
    return ("op", ctx.IDENTIFIER().getText(), arglist(ctx.arglist()), c)


def condop(ctx):
    return COND[ctx.getText()]


def tok_int(t):
    return ("int", dec_int(t.getText()))


def if_header(ctx):
    if ctx.if_h_op():
        h = ctx.if_h_op()
        v = integer_like(h.integer_like(0))
        o = condop(h.conditional_operator())
        if h.value_of():
            return ("BranchVariable", (v, ("int", o), integer_like(h.value_of().integer_like())))
        val = integer_like(h.integer_like(1))
        if o == 2:
            return ("Branch", (v, val))
        return ("BranchValue", (v, ("int", o), val))
    if ctx.if_h_bit():
        h = ctx.if_h_bit()
        v = integer_like(h.integer_like())
        i = tok_int(h.INTEGER())
        neg = h.NOT() is not None
        if v == ("const", PPL):
            return ("BranchPerformance", (i, ("int", 0 if neg else 1)))
        if neg:
            raise T2AError("not on a bit test of an ordinary variable")
        return ("BranchBit", (v, i))
    if ctx.if_h_negatable():
        h = ctx.if_h_negatable()
        n = ("int", 0 if h.NOT() else 1)
        nm = "BranchDebug" if h.DEBUG() else "BranchEdit" if h.EDIT() else "BranchVariation"
        return (nm, (n,))
    if ctx.if_h_scn():
        h = ctx.if_h_scn()
        v = integer_like(h.scn_var().integer_like())
        o = condop(h.conditional_operator())
        if o not in SCN_BRANCH:
            raise T2AError("bad scn operator")
        return (SCN_BRANCH[o], (v, tok_int(h.INTEGER(0)), tok_int(h.INTEGER(1))))
    o = operation(ctx.operation())
    if o[3] is not None:
        raise T2AError("inline context in condition")
    return (o[1], tuple(o[2]))


def assignment(ctx):
    P = _P()
    a = ctx.getChild(0)
    if isinstance(a, P.Assignment_regularContext):
        v = integer_like(a.integer_like(0))
        o = ASG[a.assign_operator().getText()]
        if a.INTEGER():
            i = tok_int(a.INTEGER())
            if a.value_of():
                raise T2AError("value() with index assignment")
            val = integer_like(a.integer_like(1))
            if v == ("const", PPL):
                return ("flag_SetPerformance", (i, val))
            return ("flag_CalcBit", (v, i, val))
        if a.value_of():
            return ("flag_CalcVariable", (v, ("int", o), integer_like(a.value_of().integer_like())))
        val = integer_like(a.integer_like(1))
        if o == 0:
            return ("flag_Set", (v, val))
        return ("flag_CalcValue", (v, ("int", o), val))
    if isinstance(a, P.Assignment_clearContext):
        return ("flag_Clear", (integer_like(a.integer_like()),))
    if isinstance(a, P.Assignment_initialContext):
        return ("flag_Initial", (integer_like(a.integer_like()),))
    if isinstance(a, P.Assignment_resetContext):
        if a.DUNGEON_RESULT():
            return ("flag_ResetDungeonResult", ())
        return ("flag_ResetScenario", (integer_like(a.scn_var().integer_like()),))
    if isinstance(a, P.Assignment_adv_logContext):
        return ("flag_SetAdventureLog", (integer_like(a.integer_like()),))
    if isinstance(a, P.Assignment_dungeon_modeContext):
        return ("flag_SetDungeonMode", (integer_like(a.integer_like(0)), integer_like(a.integer_like(1))))
    if isinstance(a, P.Assignment_scnContext):
        return ("flag_SetScenario", (integer_like(a.integer_like()), tok_int(a.INTEGER(0)), tok_int(a.INTEGER(1))))
    raise T2AError(f"unknown assignment {type(a)}")


class Pos:
    """Records where statements of the parsed text start (for C09 / C13 queries)."""

    def __init__(self):
        self.stmt_pos = {}  # id(node) -> (line0, col)
        self.hdr_pos = {}  # (id(node), bi, ci) -> (line0, col)
        self.order = []


def _start(ctx):
    return (ctx.start.line - 1, ctx.start.column)


def simple(ctx, pos=None):
    if ctx.operation():
        n = operation(ctx.operation())
    elif ctx.label():
        n = ("label", ctx.label().IDENTIFIER().getText())
    elif ctx.cntrl_stmt():
        n = ("ctrl", ctx.cntrl_stmt().getText())
    elif ctx.jump():
        n = ("jump", ctx.jump().IDENTIFIER().getText())
    elif ctx.call():
        n = ("call", ctx.call().IDENTIFIER().getText())
    else:
        n = ("asg", assignment(ctx.assignment()))
    if pos is not None:
        pos.stmt_pos[id(n)] = _start(ctx)
        pos.order.append(n)
    return n


def stmts(lst, pos):
    return [stmt(s, pos) for s in lst]


def case_header(ctx):
    if ctx.integer_like():
        return ("case", ("Case", (integer_like(ctx.integer_like()),)))
    if ctx.case_h_menu():
        return ("case", ("CaseMenu", (string(ctx.case_h_menu().string()),)))
    if ctx.case_h_menu2():
        return ("case", ("CaseMenu2", (integer_like(ctx.case_h_menu2().integer_like()),)))
    h = ctx.case_h_op()
    o = condop(h.conditional_operator())
    if h.value_of():
        return ("case", ("CaseVariable", (("int", o), integer_like(h.value_of().integer_like()))))
    return ("case", ("CaseValue", (("int", o), integer_like(h.integer_like()))))


def switch_header(ctx):
    if ctx.integer_like():
        return ("Switch", (integer_like(ctx.integer_like()),))
    if ctx.operation():
        o = operation(ctx.operation())
        if o[3] is not None:
            raise T2AError("inline context in switch header")
        return (o[1], tuple(o[2]))
    if ctx.switch_h_scn():
        h = ctx.switch_h_scn()
        i = dec_int(h.INTEGER().getText())
        if i not in (0, 1):
            raise T2AError("scn index")
        return ({0: "SwitchScenario", 1: "SwitchScenarioLevel"}[i], (integer_like(h.scn_var().integer_like()),))
    if ctx.switch_h_random():
        return ("SwitchRandom", (integer_like(ctx.switch_h_random().integer_like()),))
    if ctx.switch_h_dungeon_mode():
        return ("SwitchDungeonMode", (integer_like(ctx.switch_h_dungeon_mode().integer_like()),))
    return ("SwitchSector", ())


def cases(ctx, msg, pos, owner_holder):
    P = _P()
    out = []
    hdrs = []
    for ch in ctx.getChildren():
        if isinstance(ch, P.Single_case_blockContext):
            h = case_header(ch.case_header())
            hdrs.append(_start(ch))
            if msg:
                if not ch.string() or h[1][0] != "Case":
                    raise T2AError("message switch case without string / with non-value header")
                out.append((("case", h[1][1][0]), string(ch.string())))
            else:
                if ch.string():
                    raise T2AError("string in switch case")
                out.append((h, stmts(ch.stmt(), pos)))
        elif isinstance(ch, P.DefaultContext):
            hdrs.append(_start(ch))
            if msg:
                if not ch.string():
                    raise T2AError("message switch default without string")
                out.append((("default",), string(ch.string())))
            else:
                if ch.string():
                    raise T2AError("string in switch default")
                out.append((("default",), stmts(ch.stmt(), pos)))
    owner_holder.append(hdrs)
    return out


def stmt(ctx, pos=None):
    P = _P()
    c = ctx.getChild(0)
    if isinstance(c, P.Simple_stmtContext):
        return simple(c, pos)
    n = None
    hdr = {}
    if isinstance(c, P.Ctx_blockContext):
        h = c.ctx_header()
        inner = simple(c.simple_stmt(), pos)
        if inner[0] == "label":
            raise T2AError("label in with block")
        n = ("with", h.IDENTIFIER().getText(), integer_like(h.integer_like()), inner)
    elif isinstance(c, P.If_blockContext):
        brs = [(c.NOT() is not None, [if_header(h) for h in c.if_header()], stmts(c.stmt(), pos))]
        for ci, h in enumerate(c.if_header()):
            hdr[(0, ci)] = _start(h)
        for bi, e in enumerate(c.elseif_block()):
            brs.append((e.NOT() is not None, [if_header(h) for h in e.if_header()], stmts(e.stmt(), pos)))
            for ci, h in enumerate(e.if_header()):
                hdr[(bi + 1, ci)] = _start(h)
            hdr[("elseif", bi + 1)] = _start(e)
        els = stmts(c.else_block().stmt(), pos) if c.else_block() else None
        n = ("if", brs, els)
    elif isinstance(c, P.Switch_blockContext):
        sh = switch_header(c.switch_header())
        holder = []
        n = ("switch", sh, cases(c, False, pos, holder))
        hdr[(-1, 0)] = _start(c.switch_header())
        for ci, p in enumerate(holder[0]):
            hdr[(ci, 0)] = p
    elif isinstance(c, P.Message_switch_blockContext):
        kind = "message_SwitchTalk" if c.MESSAGE_SWITCH_TALK() else "message_SwitchMonologue"
        holder = []
        n = ("msgswitch", kind, integer_like(c.integer_like()), cases(c, True, pos, holder))
        for ci, p in enumerate(holder[0]):
            hdr[(ci, 0)] = p
    elif isinstance(c, P.Forever_blockContext):
        n = ("forever", stmts(c.stmt(), pos))
    elif isinstance(c, P.For_blockContext):
        n = ("for", simple(c.simple_stmt(0), pos), if_header(c.if_header()), simple(c.simple_stmt(1), pos), stmts(c.stmt(), pos))
        hdr[(0, 0)] = _start(c.if_header())
    elif isinstance(c, P.While_blockContext):
        n = ("while", c.NOT() is not None, if_header(c.if_header()), stmts(c.stmt(), pos))
        hdr[(0, 0)] = _start(c.if_header())
    elif isinstance(c, P.Macro_callContext):
        n = ("macro", c.MACRO_CALL().getText()[1:], arglist(c.arglist()))
    else:
        raise T2AError(f"unknown statement {type(c)}")
    if pos is not None:
        pos.stmt_pos[id(n)] = _start(c)
        pos.order.append(n)
        for k, v in hdr.items():
            pos.hdr_pos[(id(n),) + tuple(k)] = v
    return n


def tree_to_program(tree, pos=None):
    P = _P()
    imports = []
    macros = []
    routines = []
    for ch in tree.getChildren():
        if isinstance(ch, P.Import_stmtContext):
            imports.append(dec_single(ch.STRING_LITERAL().getText()))
        elif isinstance(ch, P.MacrodefContext):
            fs = ch.func_suite()
            if fs.func_alias():
                raise T2AError("alias in macro")
            macros.append((ch.IDENTIFIER().getText(), [v.getText() for v in ch.VARIABLE()], stmts(fs.stmt(), pos)))
        elif isinstance(ch, P.FuncdefContext):
            d = ch.getChild(0)
            fs = d.func_suite()
            body = None if fs.func_alias() else stmts(fs.stmt(), pos)
            if isinstance(d, P.Coro_defContext):
                hdr = ("coro", d.IDENTIFIER().getText())
            elif isinstance(d, P.Simple_defContext):
                hdr = ("def", dec_int(d.INTEGER().getText()))
            else:
                t = d.for_target_def_target()
                kind = t.IDENTIFIER().getText() if t.IDENTIFIER() else t.FOR_TARGET().getText()[4:]
                if kind not in ("actor", "object", "performer"):
                    raise T2AError("bad routine target kind")
                hdr = ("for", dec_int(d.INTEGER().getText()), kind, integer_like(d.integer_like()))
            routines.append((hdr, body))
    return {"imports": imports, "macros": macros, "routines": routines}


def parse_program(text: str, pos=None):
    """Parse text with the repo's grammar and convert. Raises the repo's ParseError on syntax errors."""
    from explorerscript.explorerscript_reader import ExplorerScriptReader

    tree = ExplorerScriptReader(text).read()
    return tree_to_program(tree, pos)


def count_statements(prog, kinds):
    """Number of statements of the given kinds anywhere in the program (tree query, not regex)."""
    n = 0

    def walk(ss):
        nonlocal n
        for s in ss:
            if s[0] in kinds:
                n += 1
            if s[0] == "with":
                walk([s[3]])
            elif s[0] == "if":
                for _, _, b in s[1]:
                    walk(b)
                if s[2]:
                    walk(s[2])
            elif s[0] == "switch":
                for _, b in s[2]:
                    walk(b)
            elif s[0] == "forever":
                walk(s[1])
            elif s[0] == "while":
                walk(s[3])
            elif s[0] == "for":
                walk([s[1], s[3]])
                walk(s[4])

    for m in prog.get("macros", []):
        walk(m[2])
    for _, b in prog["routines"]:
        if b:
            walk(b)
    return n


def plain_labels(prog):
    """Multiset (sorted list) of signatures of plain statements: ops (with ctx), assignments, message switches."""
    out = []

    def walk(ss):
        for s in ss:
            k = s[0]
            if k == "op":
                out.append(("op", s[1], tuple(s[2]), s[3]))
            elif k == "asg":
                out.append(("asg", s[1]))
            elif k == "msgswitch":
                out.append(("msg", s[1], s[2], tuple(s[3])))
            elif k == "with":
                if s[3][0] == "op" and s[3][3] is None:
                    # `with (actor X) { op(); }` and `op<actor X>();` are two spellings of the same statement
                    out.append(("op", s[3][1], tuple(s[3][2]), (s[1], s[2])))
                else:
                    out.append(("with", s[1], s[2]))
                    walk([s[3]])
            elif k == "if":
                for _, _, b in s[1]:
                    walk(b)
                if s[2]:
                    walk(s[2])
            elif k == "switch":
                if s[1][0] in OP_SWITCH_HEADERS:
                    # the header of such a switch is an operation; `switch (ProcessSpecial(1, 2)) { }` is also how the decompiler
                    # writes that operation when it is used as a plain statement
                    out.append(("op", s[1][0], tuple(s[1][1]), None))
                for _, b in s[2]:
                    walk(b)
            elif k == "forever":
                walk(s[1])
            elif k == "while":
                walk(s[3])
            elif k == "for":
                walk([s[1], s[3]])
                walk(s[4])

    for _, b in prog["routines"]:
        if b:
            walk(b)
    return sorted(out, key=repr)


OP_SWITCH_HEADERS = ("message_SwitchMenu", "message_SwitchMenu2", "ProcessSpecial", "message_Menu", "main_EnterAdventure", "main_EnterRescueUser",
                     "main_EnterTraining", "main_EnterTraining2", "SwitchDirection", "SwitchDirectionLives", "SwitchDirectionLives2",
                     "SwitchDirectionMark", "SwitchLives", "SwitchValue", "SwitchVariable")
