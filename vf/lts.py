"""M-SSB (the SSB machine of property C01 made executable), the generic deterministic LTS used for
both the implementation side and the specification side, and M-EQ, the lock-step product monitor.

Node kinds (tuples stored in LTS.nodes[id]):
    ("ev",   sig, next)            observable operation, continues
    ("test", sig, taken, nottaken) observable test with two outcomes
    ("stop",)                      silent stop: Return / running off the end of a routine
    ("stopev", sig)                observable flow-ending operation (End, Hold, Destroy, JumpCommon)
    ("tau",  next)                 silent step (Jump, labels, structural glue)
sig = (opcode name, tuple of canonical parameter keys)   (jump target excluded for tests)
"""
from __future__ import annotations

from dataclasses import dataclass, field

# Own copy of the jump table (property C01/C03: Jump, Call, all Branch*, all Case*): index of the target.
JUMP_IDX = {
    "Case": 1, "CaseMenu": 1, "CaseMenu2": 1, "CaseScenario": 2, "CaseValue": 2, "CaseVariable": 2,
    "Jump": 0, "Call": 0,
    "Branch": 2, "BranchBit": 2, "BranchDebug": 1, "BranchEdit": 1, "BranchExecuteSub": 1,
    "BranchPerformance": 2, "BranchScenarioNow": 3, "BranchScenarioNowAfter": 3,
    "BranchScenarioNowBefore": 3, "BranchScenarioAfter": 3, "BranchScenarioBefore": 3, "BranchSum": 3,
    "BranchValue": 3, "BranchVariable": 3, "BranchVariation": 1,
}
# flow-ending operations other than Jump
FLOW_END_OBS = {"End", "Hold", "Destroy", "JumpCommon"}
FLOW_END = FLOW_END_OBS | {"Return"}
CTX_OPS = {"lives": "actor", "object": "object", "performer": "performer"}
CTX_KW = {v: k for k, v in CTX_OPS.items()}


def pkey(p):
    """Canonical hashable key of a parameter (repo SsbOpParam objects or my own AST params).
    Unlike the repo's __eq__ it includes position mark names and ignores `indent`."""
    if isinstance(p, bool):
        return ("int", int(p))
    if isinstance(p, int):
        return ("int", p)
    if isinstance(p, tuple):
        if p and p[0] == "lang":
            return ("lang", tuple((a, b) for a, b in p[1]))
        if p and p[0] == "pos":
            return ("pos", p[1], 2 if p[2] in (2, 4) else p[2], 2 if p[3] in (2, 4) else p[3], p[4], p[5])
        return p
    n = type(p).__name__
    if n == "SsbOpParamFixedPoint":
        return ("fp", p.value)
    if n == "SsbOpParamConstant":
        return ("const", p.name)
    if n == "SsbOpParamConstString":
        return ("str", p.name)
    if n == "SsbOpParamLanguageString":
        return ("lang", tuple(p.strings.items()))
    if n == "SsbOpParamPositionMarker":
        # offsets 2 and 4 both denote the half-tile offset (docs/source_maps.rst "2 or 4 when +0.5 should be added")
        return ("pos", p.name, 2 if p.x_offset in (2, 4) else p.x_offset, 2 if p.y_offset in (2, 4) else p.y_offset,
                p.x_relative, p.y_relative)
    raise TypeError(f"unknown parameter {p!r} ({n})")


class MalformedSsb(Exception):
    """The op list is not a closed SSB program (dangling jump, jump without target...)."""


@dataclass
class LTS:
    nodes: dict = field(default_factory=dict)
    starts: list = field(default_factory=list)  # per routine: start node or None (alias / empty)
    meta: dict = field(default_factory=dict)  # node -> free-form info (source position, offset, ...)

    def resolve(self, n):
        """Skip silent steps. Returns the first non-tau node id, or None on a silent cycle."""
        seen = set()
        while True:
            k = self.nodes[n]
            if k[0] != "tau":
                return n
            if n in seen:
                return None
            seen.add(n)
            n = k[1]


def ssb_lts(routine_ops) -> LTS:
    """M-SSB. routine_ops: list[list[SsbOperation]] with resolved integer jump targets."""
    l = LTS()
    known = set()
    for r in routine_ops:
        for op in r:
            if op.offset in known:
                raise MalformedSsb(f"duplicate offset {op.offset}")
            known.add(op.offset)
    for ri, r in enumerate(routine_ops):
        fall = ("fall", ri)
        l.nodes[fall] = ("stop",)
        for i, op in enumerate(r):
            nxt = r[i + 1].offset if i + 1 < len(r) else fall
            name = op.op_code.name
            params = list(op.params)
            l.meta[op.offset] = {"offset": op.offset, "routine": ri, "index": i}
            if name in CTX_OPS and i + 1 < len(r):
                # the op reached by falling through from a context op runs in that context: a flow-ending op there
                # ends the actor's / object's / performer's script, not this routine (context variant of the node)
                nop = r[i + 1]
                if nop.op_code.name in FLOW_END and nop.op_code.name not in JUMP_IDX:
                    cn = ("ctx", nop.offset)
                    nn = r[i + 2].offset if i + 2 < len(r) else fall
                    l.nodes[cn] = ("ev", (nop.op_code.name, tuple(pkey(p) for p in nop.params)), nn)
                    l.meta[cn] = {"offset": nop.offset, "routine": ri, "index": i + 1}
                    nxt = cn
            after_ctx = False
            if name in JUMP_IDX:
                ji = JUMP_IDX[name]
                if len(params) <= ji:
                    raise MalformedSsb(f"{name}@{op.offset}: no jump target parameter")
                tgt = params[ji]
                rest = params[:ji] + params[ji + 1:]
                if isinstance(tgt, bool) or not isinstance(tgt, int) or tgt not in known:
                    raise MalformedSsb(f"{name}@{op.offset}: dangling jump target {tgt!r}")
                if name == "Jump":
                    if rest:
                        raise MalformedSsb(f"Jump@{op.offset} with extra parameters")
                    l.nodes[op.offset] = ("tau", tgt)
                else:
                    l.nodes[op.offset] = ("test", (name, tuple(pkey(p) for p in rest)), tgt, nxt)
            elif name in FLOW_END and not after_ctx:
                if name == "Return":
                    l.nodes[op.offset] = ("stop",)
                else:
                    l.nodes[op.offset] = ("stopev", (name, tuple(pkey(p) for p in params)))
            else:
                l.nodes[op.offset] = ("ev", (name, tuple(pkey(p) for p in params)), nxt)
        l.starts.append(r[0].offset if r else None)
    return l


@dataclass
class EqResult:
    witness: tuple | None  # None = equivalent
    pairs: int = 0
    pairing: list = field(default_factory=list)  # (node_a, node_b) for matched observable nodes
    diverging_pairs: int = 0
    limit_hit: bool = False

    @property
    def ok(self):
        return self.witness is None and not self.limit_hit


def equiv(a: LTS, na, b: LTS, nb, limit=200000, tol=None) -> EqResult:
    """Lock-step product of two deterministic LTS from (na, nb) under every outcome of every test.
    tol(sig_a, sig_b) -> bool may declare two different labels equal (documented tolerances)."""
    res = EqResult(None)
    seen = set()
    stack = [(na, nb, ())]
    while stack:
        x, y, path = stack.pop()
        rx = a.resolve(x)
        ry = b.resolve(y)
        if (rx, ry) in seen:
            continue
        seen.add((rx, ry))
        if len(seen) > limit:
            res.limit_hit = True
            res.pairs = len(seen)
            return res
        if rx is None or ry is None:
            if rx is None and ry is None:
                res.diverging_pairs += 1
                continue
            res.witness = ("diverge", path, _desc(a, rx), _desc(b, ry))
            break
        kx = a.nodes[rx]
        ky = b.nodes[ry]
        if kx[0] != ky[0]:
            res.witness = ("kind", path, _desc(a, rx), _desc(b, ry))
            break
        if kx[0] == "stop":
            continue
        if kx[1] != ky[1] and not (tol and tol(kx[1], ky[1])):
            res.witness = ("label", path, _desc(a, rx), _desc(b, ry))
            break
        res.pairing.append((rx, ry))
        if kx[0] == "ev":
            stack.append((kx[2], ky[2], path + (kx[1][0],)))
        elif kx[0] == "test":
            stack.append((kx[3], ky[3], path + (kx[1][0] + "-",)))
            stack.append((kx[2], ky[2], path + (kx[1][0] + "+",)))
    res.pairs = len(seen)
    return res


def _desc(l: LTS, n):
    if n is None:
        return "<silent cycle>"
    k = l.nodes[n]
    if k[0] in ("ev", "test", "stopev"):
        return (k[0], k[1][0], k[1][1])
    return (k[0],)


def has_silent_cycle(l: LTS, start) -> bool:
    """True if some state reachable from start diverges silently (op-free cycle): excluded inputs."""
    seen = set()
    stack = [start]
    while stack:
        n = l.resolve(stack.pop())
        if n is None:
            return True
        if n in seen:
            continue
        seen.add(n)
        k = l.nodes[n]
        if k[0] == "ev":
            stack.append(k[2])
        elif k[0] == "test":
            stack.append(k[2])
            stack.append(k[3])
    return False


def reachable(l: LTS, start):
    """Set of observable nodes reachable from start."""
    seen = set()
    stack = [start]
    while stack:
        n = l.resolve(stack.pop())
        if n is None or n in seen:
            continue
        seen.add(n)
        k = l.nodes[n]
        if k[0] == "ev":
            stack.append(k[2])
        elif k[0] == "test":
            stack.append(k[2])
            stack.append(k[3])
    return seen


def count_paths(l: LTS, start, cap=10**6):
    """Number of distinct acyclic-prefix paths (DAG path count with cycle cut) - a non-triviality measure."""
    memo = {}
    onstack = set()

    def go(n):
        n = l.resolve(n)
        if n is None:
            return 1
        if n in memo:
            return memo[n]
        if n in onstack:
            return 1
        onstack.add(n)
        k = l.nodes[n]
        if k[0] == "ev":
            v = go(k[2])
        elif k[0] == "test":
            v = min(cap, go(k[2]) + go(k[3]))
        else:
            v = 1
        onstack.discard(n)
        memo[n] = v
        return v

    import sys

    old = sys.getrecursionlimit()
    sys.setrecursionlimit(max(old, 20000))
    try:
        return go(start)
    finally:
        sys.setrecursionlimit(old)


def random_walk(l: LTS, start, rnd, max_steps=400):
    """One execution with a random outcome schedule. Returns (trace, schedule)."""
    trace = []
    sched = []
    n = start
    for _ in range(max_steps):
        n = l.resolve(n)
        if n is None:
            trace.append(("diverge",))
            break
        k = l.nodes[n]
        if k[0] == "stop":
            trace.append(("stop",))
            break
        if k[0] == "stopev":
            trace.append(("stopev", k[1]))
            break
        if k[0] == "ev":
            trace.append(("ev", k[1]))
            n = k[2]
        else:
            o = rnd.random() < 0.5
            sched.append(o)
            trace.append(("test", k[1], o))
            n = k[2] if o else k[3]
    return trace, sched


def replay_walk(l: LTS, start, sched, max_steps=400):
    trace = []
    it = iter(sched)
    n = start
    for _ in range(max_steps):
        n = l.resolve(n)
        if n is None:
            trace.append(("diverge",))
            break
        k = l.nodes[n]
        if k[0] == "stop":
            trace.append(("stop",))
            break
        if k[0] == "stopev":
            trace.append(("stopev", k[1]))
            break
        if k[0] == "ev":
            trace.append(("ev", k[1]))
            n = k[2]
        else:
            try:
                o = next(it)
            except StopIteration:
                break
            trace.append(("test", k[1], o))
            n = k[2] if o else k[3]
    return trace
