"""Workload generators G-EXPS, G-FLAT, shape catalogue. Seeded, size bounded, own data model."""
from __future__ import annotations

import itertools
import random

from vf.esast import PPL, SCN_BRANCH

CTX_KINDS = ["actor", "object", "performer"]


class Cfg:
    def __init__(self, **kw):
        self.depth = 2
        self.max_block = 4
        self.labels = True
        self.loops = True
        self.switches = True
        self.ifs = True
        self.ctrl_in_blocks = True
        self.rich_params = True
        self.max_routines = 3
        self.coro_p = 0.08
        self.alias_p = 0.08
        self.dead_code_p = 0.05
        self.no_terminator_p = 0.5
        self.macros = []  # callable macro specs: (name, nvars)
        self.macro_p = 0.0
        self.pos_p = 0.1
        # control transfers out of a with-block: the specification gives them no meaning (which op gets the context?)
        self.jumps_in_with = False
        # 'any': every case header kind under every switch header; 'matching': regular cases under regular switches and
        # menu cases under menu switches; 'decompilable': matching + only switch operations the decompiler knows as switches
        self.switch_pairs = 'matching'
        self.__dict__.update(kw)


class Gen:
    def __init__(self, rnd: random.Random, cfg: Cfg | None = None):
        self.r = rnd
        self.c = cfg or Cfg()
        self.opn = 0
        self.lbln = 0
        self.labels_defined = []
        self.posn = 0
        self.vars_in_scope = []  # macro variables usable as constants
        self.in_macro = False
        self.intlike_vars = set()

    # ---- values
    def uid(self):
        self.opn += 1
        return self.opn

    def intp(self):
        return ("int", self.r.choice([0, 1, 2, 3, 7, -1, -5, 100, 255, 16383, -16384, 32767]))

    def var(self):
        pool = ["$A", "$B", "$SCENARIO_MAIN", "VAR_X", "$EVENT_LOCAL"]
        if self.vars_in_scope and self.r.random() < 0.5:
            v = self.r.choice(self.vars_in_scope)
            self.intlike_vars.add(v)  # used where the grammar wants a number / constant: callers must pass one
            return ("const", v)
        return ("const", self.r.choice(pool))

    def intlike(self):
        c = self.r.random()
        if c < 0.4:
            return self.intp()
        if c < 0.7:
            return self.var()
        if c < 0.95:
            return ("const", "CONST_" + str(self.r.randint(0, 3)))
        return self.fp()

    def fp(self):
        return ("fp", self.r.choice(["1.5", "0.25", "-3.125", "-0.5", "12.0", "0.003", "63.996"]))

    def string(self):
        if getattr(self, "in_macro", False) and self.vars_in_scope and self.r.random() < 0.12:
            # text that happens to be the name of a macro parameter: a string is a string, it is not substituted
            return self.r.choice(self.vars_in_scope)
        if not self.c.rich_params:
            return self.r.choice(["hello", "a b", ""])
        return self.r.choice([
            "hello", "it's", 'say "x"', "a b", "", " lead", "trail ", "two\nlines", "a\nb\n c", "{x}", "// no",
            "/* c */", "semi;colon", "tab\there", "ünï", "'", '"', "'''", '"""', "q'\"q", "line1\n  indented\nline3",
            # characters that str.splitlines() takes for line breaks although neither the lexer nor the writers do
            "sep\u2028arated", "next\x85line", "v\x0btab", "para\u2029", "two\nlines and more",
        ])

    def pos(self):
        self.posn += 1
        if getattr(self, "in_macro", False) and self.vars_in_scope and self.r.random() < 0.12 and not getattr(self, "_pos_named_like_param", False):
            self._pos_named_like_param = True  # (mark names are unique per program, so only once)
            return ("pos", self.r.choice(self.vars_in_scope), self.r.choice([0, 0, 2]), self.r.choice([0, 0, 2]),
                    self.r.choice([0, 1, 20, 255, -3]), self.r.choice([0, 5, 47, -1]))
        return ("pos", f"m{self.posn}" + self.r.choice(["", "", "", "é", " ü", "ß", "名"]), self.r.choice([0, 0, 2]), self.r.choice([0, 0, 2]),
                self.r.choice([0, 1, 20, 255, -3]), self.r.choice([0, 5, 47, -1]))

    def param(self):
        c = self.r.random()
        if c < 0.45:
            return self.intlike()
        if c < 0.65:
            return ("str", self.string())
        if c < 0.75:
            langs = self.r.sample(["english", "french", "german", "italian", "spanish"], self.r.randint(1, 3))
            return ("lang", tuple((l, self.string()) for l in langs))
        if c < 0.75 + self.c.pos_p:
            return self.pos()
        if c < 0.93:
            return self.fp()
        return self.intp()

    # ---- simple statements
    def op(self, ctx_ok=True):
        n = self.uid()
        ctx = None
        if ctx_ok and self.r.random() < 0.12:
            ctx = (self.r.choice(CTX_KINDS), self.intlike())
        if ctx is None and self.r.random() < 0.04:
            # an operation that can head a switch, used as a plain statement
            return ("op", self.r.choice(["ProcessSpecial", "message_Menu", "main_EnterAdventure", "SwitchValue"]), [("int", n), self.intlike()], None)
        return ("op", f"op_{n}", [self.param() for _ in range(self.r.randint(0, 3))], ctx)

    def asg(self):
        n = ("int", self.uid())
        v = self.var()
        vi = self.intlike()
        c = self.r.randint(0, 11)
        if c == 0:
            return ("asg", ("flag_Set", (v, n)))
        if c == 1:
            return ("asg", ("flag_CalcValue", (v, ("int", self.r.randint(1, 4)), n)))
        if c == 2:
            return ("asg", ("flag_CalcVariable", (n, ("int", self.r.randint(0, 4)), vi)))
        if c == 3:
            return ("asg", ("flag_CalcBit", (v, n, ("int", self.r.randint(0, 1)))))
        if c == 4:
            return ("asg", ("flag_SetPerformance", (n, ("int", self.r.randint(0, 1)))))
        if c == 5:
            return ("asg", ("flag_SetScenario", (v, n, ("int", self.r.randint(0, 9)))))
        if c == 6:
            return ("asg", ("flag_Clear", (n,)))
        if c == 7:
            return ("asg", ("flag_Initial", (n,)))
        if c == 8:
            return ("asg", ("flag_ResetScenario", (n,)))
        if c == 9:
            return ("asg", ("flag_ResetDungeonResult", ()))
        if c == 10:
            return ("asg", ("flag_SetAdventureLog", (n,)))
        # the mode: any number, one of the four mode numbers, or the name of a mode constant
        from vf.env import DM_NAMES
        mode = self.r.choice([n, n, ("int", self.r.randint(0, 3)), ("const", self.r.choice(DM_NAMES)), ("const", "CONST_" + str(self.r.randint(0, 3)))])
        return ("asg", ("flag_SetDungeonMode", (vi, mode)))

    def cond(self):
        n = ("int", self.uid())
        v = self.var()
        c = self.r.randint(0, 7)
        if c == 0:
            return ("Branch", (v, n))
        if c == 1:
            return ("BranchValue", (v, ("int", self.r.choice([0, 1, 3, 4, 5, 6, 7, 8, 9, 10])), n))
        if c == 2:
            return ("BranchVariable", (n, ("int", self.r.randint(0, 10)), self.var()))
        if c == 3:
            return ("BranchBit", (v, n))
        if c == 4:
            return ("BranchPerformance", (n, ("int", self.r.randint(0, 1))))
        if c == 5:
            return (self.r.choice(list(SCN_BRANCH.values())), (v, n, ("int", self.r.randint(0, 9))))
        if c == 6:
            # negatable keyword tests carry no unique literal: only distinguishable by kind+polarity
            return (self.r.choice(["BranchDebug", "BranchEdit", "BranchVariation"]), (("int", self.r.randint(0, 1)),))
        if self.r.random() < 0.5:
            return ("BranchExecuteSub", (n,))
        if self.r.random() < self.c.pos_p:
            return ("BranchSum", (self.pos(), ("int", self.r.randint(0, 10)), n))
        return ("BranchSum", (v, ("int", self.r.randint(0, 10)), n))

    MENU_SWITCHES = ("message_SwitchMenu", "message_SwitchMenu2")
    KNOWN_OP_SWITCHES = ("message_SwitchMenu", "message_SwitchMenu2", "ProcessSpecial", "message_Menu", "main_EnterAdventure",
                         "SwitchDirection", "SwitchDirectionLives", "SwitchDirectionMark", "SwitchLives", "SwitchValue", "SwitchVariable")

    def swhdr(self):
        n = ("int", self.uid())
        c = self.r.randint(0, 7)
        if self.c.switch_pairs == "decompilable" and c == 7:
            c = 6
        if c == 0:
            return ("Switch", (n,))
        if c == 1:
            return ("SwitchScenario", (n,))
        if c == 2:
            return ("SwitchScenarioLevel", (n,))
        if c == 3:
            return ("SwitchRandom", (n,))
        if c == 4:
            return ("SwitchDungeonMode", (n,))
        if c == 5:
            return ("SwitchSector", ())
        if c == 6:
            names = list(self.KNOWN_OP_SWITCHES)
            return (self.r.choice(names), (n, self.intlike()))
        if self.r.random() < self.c.pos_p:
            return (f"swop_{n[1]}", (n, self.pos()))
        return (f"swop_{n[1]}", (n,))

    def casehdr(self, swsig=None):
        n = ("int", self.uid())
        c = self.r.randint(0, 4)
        if swsig is not None and self.c.switch_pairs != "any":
            # the kinds of case headers a switch of that kind takes (regular cases / menu cases)
            c = self.r.randint(3, 4) if swsig[0] in self.MENU_SWITCHES else self.r.randint(0, 2)
        if c == 0:
            if swsig is not None and swsig[0] == "SwitchDungeonMode" and self.r.random() < 0.6:
                from vf.env import DM_NAMES
                return ("case", ("Case", (self.r.choice([("int", self.r.randint(0, 3)), ("const", self.r.choice(DM_NAMES))]),)))
            return ("case", ("Case", (n,)))
        if c == 1:
            return ("case", ("CaseValue", (("int", self.r.randint(0, 10)), n)))
        if c == 2:
            return ("case", ("CaseVariable", (("int", self.r.randint(0, 10)), n)))
        if c == 3:
            if self.r.random() < 0.3:
                return ("case", ("CaseMenu", (("lang", (("english", f"menu{n[1]}"), ("german", "x")),),)))
            return ("case", ("CaseMenu", (("str", f"menu{n[1]}"),)))
        return ("case", ("CaseMenu2", (self.r.choice([n, n, n, ("int", 0), ("const", "CONST_1")]),)))

    def newlabel(self):
        if getattr(self, "in_macro", False) and getattr(self, "_lbl_macro", None) is not None:
            # labels of a macro body are private to it: different macros may use the same names
            self._lbl_macro += 1
            return f"m{self._lbl_macro}"
        self.lbln += 1
        return f"l{self.lbln}"

    def msgswitch(self):
        n = self.uid()
        cases = []
        for i in range(self.r.randint(1, 3)):
            cases.append((("case", ("int", n * 10 + i)), self.r.choice([("str", f"t{n}_{i}"), ("lang", (("english", f"t{n}_{i}"),))])))
        if self.r.random() < 0.5:
            cases.append((("default",), ("str", f"d{n}")))
        return ("msgswitch", self.r.choice(["message_SwitchTalk", "message_SwitchMonologue"]), self.var(), cases)

    def with_block(self, inloop, incase):
        c = self.r.random()
        if c < 0.5:
            inner = self.op(False)
        elif c < 0.8:
            inner = self.asg()
        elif c < 0.9 and self.c.ctrl_in_blocks:
            # (`return` inside a macro is a jump out of the with-block: see jumps_in_with)
            inner = ("ctrl", self.r.choice(["end", "hold"] if self.in_macro and not self.c.jumps_in_with else ["return", "end", "hold"]))
        elif c < 0.95 and self.c.labels and self.c.jumps_in_with:
            inner = ("jumpany",)
        elif inloop and self.c.ctrl_in_blocks and self.c.jumps_in_with:
            inner = ("ctrl", self.r.choice(["continue", "break_loop"]))
        elif incase and self.c.ctrl_in_blocks and self.c.jumps_in_with:
            inner = ("ctrl", "break")
        else:
            inner = self.op(False)
        return ("with", self.r.choice(CTX_KINDS), self.intlike(), inner)

    def macro_call(self):
        name, flags = self.r.choice(self.c.macros)
        extra = self.r.choice([0, 0, 0, 1])
        def arg(f):
            if getattr(self, "in_macro", False) and self.vars_in_scope and self.r.random() < 0.4:
                # a macro passes its own parameters on (in any order)
                v = self.r.choice(self.vars_in_scope)
                if f:
                    self.intlike_vars.add(v)
                return ("const", v)
            return self.intlike_noppl() if f else self.param()

        return ("macro", name, [arg(f) for f in flags] + [self.param() for _ in range(extra)])

    def intlike_noppl(self):
        return self.intlike()

    def plain(self, inloop=False, incase=False):
        c = self.r.random()
        if self.c.macros and c < self.c.macro_p:
            return self.macro_call()
        if c < 0.5:
            return self.op()
        if c < 0.78:
            return self.asg()
        if c < 0.9:
            return self.with_block(inloop, incase)
        return self.msgswitch()

    # ---- blocks
    def block(self, depth, inloop, incase, n=None, allow_term=True):
        n = self.r.randint(0, self.c.max_block) if n is None else n
        out = []
        for _ in range(n):
            out += self.stmt(depth, inloop, incase)
        if allow_term and self.c.ctrl_in_blocks and self.r.random() < 0.15:
            out.append(("ctrl", self.r.choice(["return", "end", "hold"])))
            if self.r.random() < self.c.dead_code_p * 4:
                out.append(self.op())
        return out

    def if_stmt(self, depth, inloop, incase):
        brs = []
        for _ in range(self.r.choice([1, 1, 1, 2, 3])):
            conds = [self.cond() for _ in range(self.r.choice([1, 1, 2, 3]))]
            brs.append((self.r.random() < 0.3, conds, self.block(depth - 1, inloop, incase)))
        els = self.block(depth - 1, inloop, incase) if self.r.random() < 0.5 else None
        return ("if", brs, els)

    def switch_stmt(self, depth, inloop, incase):
        hdr = self.swhdr()
        cases = []
        hasdef = False
        for _ in range(self.r.randint(0, 4)):
            if not hasdef and self.r.random() < 0.25:
                h = ("default",)
                hasdef = True
            else:
                h = self.casehdr(hdr)
            body = self.block(depth - 1, inloop, True, allow_term=self.r.random() < 0.3) if self.r.random() < 0.8 else []
            if body and self.r.random() < 0.6 and self.c.ctrl_in_blocks:
                body.append(("ctrl", "break"))
            cases.append((h, body))
        return ("switch", hdr, cases)

    def stmt(self, depth, inloop, incase):
        c = self.r.random()
        cfg = self.c
        if depth <= 0 or c < 0.42:
            return [self.plain(inloop, incase)]
        if c < 0.50:
            if not cfg.labels:
                return [self.plain()]
            l = self.newlabel()
            self.labels_defined.append(l)
            return [("label", l)]
        if c < 0.57:
            return [("jumpany",)] if cfg.labels else [self.plain()]
        if c < 0.60:
            return [("callany",)] if cfg.labels else [self.plain()]
        if c < 0.64:
            if inloop and cfg.ctrl_in_blocks:
                return [("ctrl", self.r.choice(["continue", "break_loop"]))]
            return [self.plain()]
        if c < 0.68:
            if incase and cfg.ctrl_in_blocks:
                return [("ctrl", "break")]
            return [self.plain()]
        if c < 0.80:
            return [self.if_stmt(depth, inloop, incase)] if cfg.ifs else [self.plain()]
        if c < 0.90:
            return [self.switch_stmt(depth, inloop, incase)] if cfg.switches else [self.plain()]
        if not cfg.loops:
            return [self.plain()]
        if c < 0.94:
            return [("forever", self.block(depth - 1, True, False))]
        if c < 0.98:
            return [("while", self.r.random() < 0.35, self.cond(), self.block(depth - 1, True, False))]
        init = self.r.choice([self.asg, lambda: self.op(False)])()
        incr = self.r.choice([self.asg, lambda: self.op(False)])()
        return [("for", init, self.cond(), incr, self.block(depth - 1, True, False))]

    # ---- fix-ups
    def fix(self, stmts, labels):
        """Resolve jump/call placeholders against defined labels; repair switches ending in an empty case."""
        out = []
        for s in stmts:
            k = s[0]
            if k in ("jumpany", "callany"):
                if labels:
                    out.append(("jump" if k == "jumpany" else "call", self.r.choice(labels)))
                continue
            if k == "with" and s[3][0] == "jumpany":
                if labels:
                    s = ("with", s[1], s[2], ("jump", self.r.choice(labels)))
                else:
                    s = ("with", s[1], s[2], self.op(False))
            elif k == "if":
                s = ("if", [(n, c, self.fix(b, labels)) for n, c, b in s[1]], None if s[2] is None else self.fix(s[2], labels))
            elif k == "switch":
                cases = [(h, self.fix(b, labels)) for h, b in s[2]]
                if cases and not cases[-1][1]:
                    cases[-1] = (cases[-1][0], [self.op()])
                s = ("switch", s[1], cases)
            elif k == "forever":
                s = ("forever", self.fix(s[1], labels))
            elif k == "while":
                s = ("while", s[1], s[2], self.fix(s[3], labels))
            elif k == "for":
                s = ("for", s[1], s[2], s[3], self.fix(s[4], labels))
            out.append(s)
        return out

    def routine_headers(self, n):
        if self.r.random() < self.c.coro_p:
            return [("coro", f"CORO_{i}") for i in range(n)]
        hs = []
        for i in range(n):
            k = self.r.randint(0, 3)
            if k == 0:
                hs.append(("def", i))
            else:
                tgt = self.r.choice([("int", self.r.randint(0, 300)), ("int", 0), ("const", "ACTOR_" + str(self.r.randint(0, 9)))])
                hs.append(("for", i, self.r.choice(CTX_KINDS), tgt))
        return hs

    def gen_macros(self, n, prefix="mac", callable_extra=()):
        """n macros with an acyclic call graph (macro i may call macros j > i and the extra ones);
        labels are local to each macro. Returns list of (name, vars, body) in topological (caller first) order."""
        names = [(f"{prefix}_{i}", self.r.randint(0, 3)) for i in range(n)]
        saved = (self.c.macros, self.c.macro_p, self.labels_defined, self.vars_in_scope)
        out = []
        specs = [None] * n
        # parameter names: private to each macro, or the same few names in every macro (a caller then passes `$q1` for the
        # callee's `$q0`: substitution has to be simultaneous)
        shared_names = self.r.random() < 0.5
        opless = []
        # callees first, so that the requirements on their arguments are known when their callers are generated
        for i in reversed(range(n)):
            name, nv = names[i]
            vars_ = [f"$q{k}" for k in self.r.sample(range(4), nv)] if shared_names else [f"$p{i}_{k}" for k in range(nv)]
            self.c.macros = [x for x in specs[i + 1:] if x is not None] + list(callable_extra)
            self.c.macro_p = 0.25 if self.c.macros else 0.0
            self.labels_defined = []
            self.vars_in_scope = vars_
            self.in_macro = True
            self._lbl_macro = 0 if shared_names else None
            if i > 0 and self.c.labels and self.r.random() < 0.12:
                # a macro that emits no op at all (the grammar wants a statement: a label is the smallest one)
                vars_ = []
                body = [("label", f"lonely{i}" if not shared_names else "m1")]
                opless.append(name)
            else:
                body = self.block(min(self.c.depth, 2), False, False, n=self.r.randint(1, 4), allow_term=False)
                if self.c.ctrl_in_blocks and self.r.random() < 0.3:
                    body.append(("ctrl", "return"))
                body = self.fix(body, list(self.labels_defined)) or [self.op()]
                if opless and self.r.random() < 0.4:
                    # ... called as the very first statement of another macro: the first op of this expansion comes after a
                    # complete (empty) nested expansion
                    body.insert(0, ("macro", self.r.choice(opless), []))
            out.append((name, vars_, body))
            specs[i] = (name, [self.passes_on_intlike(v, body) for v in vars_])
        out.reverse()
        self.c.macros, self.c.macro_p, self.labels_defined, self.vars_in_scope = saved
        self.in_macro = False
        return out, specs

    def passes_on_intlike(self, var, body):
        """does the macro use var where only numbers / constants are allowed (directly or by passing it on)?"""
        if var in self.intlike_vars:
            return True
        found = False

        def walk(ss):
            nonlocal found
            for s in ss:
                k = s[0]
                if k == "macro":
                    flags = dict(self.c.macros).get(s[1]) or []
                    for a, f in zip(s[2], flags):
                        if f and a == ("const", var):
                            found = True
                elif k == "if":
                    for _, _, b in s[1]:
                        walk(b)
                    if s[2]:
                        walk(s[2])
                elif k == "switch":
                    for _, b in s[2]:
                        walk(b)
                elif k == "forever":
                    walk(s[1])
                elif k == "while":
                    walk(s[3])
                elif k == "for":
                    walk(s[4])

        walk(body)
        return found

    def program(self, nroutines=None, nmacros=0):
        macros = []
        if nmacros:
            macros, specs = self.gen_macros(nmacros)
            self.c.macros = specs
            self.c.macro_p = max(self.c.macro_p, 0.15)
            self.r.shuffle(macros)
        prog = self._program(nroutines)
        prog["macros"] = macros
        if macros and self.r.random() < 0.5:
            prog["order"] = interleave(self.r, len(macros), len(prog["routines"]))
        return prog

    def _program(self, nroutines=None):
        nroutines = nroutines or self.r.randint(1, self.c.max_routines)
        hdrs = self.routine_headers(nroutines)
        bodies = []
        for i in range(nroutines):
            if i > 0 and self.r.random() < self.c.alias_p:
                bodies.append(None)
                continue
            body = self.block(self.c.depth, False, False, n=self.r.randint(1, self.c.max_block + 1), allow_term=False)
            if self.r.random() > self.c.no_terminator_p and self.c.ctrl_in_blocks:
                body.append(("ctrl", self.r.choice(["return", "end", "hold"])))
            bodies.append(body)
        labels = list(self.labels_defined)
        bodies = [None if b is None else (self.fix(b, labels) or [self.op()]) for b in bodies]
        return {"imports": [], "macros": [], "routines": list(zip(hdrs, bodies))}


def interleave(r, nmacros, nroutines):
    """a definition order: routines in id order, macro definitions anywhere between them"""
    order = [("r", i) for i in range(nroutines)]
    for i in range(nmacros):
        order.insert(r.randint(0, len(order)), ("m", i))
    return order


# --------------------------------------------------------------------------------- shape catalogue
def _u(n):
    return ("op", f"op_{n}", [("int", n)], None)


def _c(n, kind=0):
    v = ("const", "$A")
    if kind == 0:
        return ("Branch", (v, ("int", n)))
    if kind == 1:
        return ("BranchBit", (v, ("int", n)))
    if kind == 2:
        return ("BranchPerformance", (("int", n), ("int", 0)))
    return ("BranchScenarioNow", (v, ("int", n), ("int", 1)))


def shape_catalogue():
    """Hand-written skeletons: construct x position-in-routine x negation x lone-jump/empty body.
    Yields (name, program). Every op and test carries a unique integer."""
    out = []

    def prog(name, body, extra_routines=()):
        rs = [(("def", 0), body)]
        for i, b in enumerate(extra_routines):
            rs.append((("def", i + 1), b))
        out.append((name, {"imports": [], "macros": [], "routines": rs}))

    term_variants = [("noterm", []), ("ret", [("ctrl", "return")]), ("end", [("ctrl", "end")]), ("op", [_u(90)])]
    for neg in (False, True):
        for nconds in (1, 2):
            conds = [_c(10 + i, i) for i in range(nconds)]
            for tname, tail in term_variants:
                tag = f"neg{int(neg)}_c{nconds}_{tname}"
                # if with lone jump to a label later / earlier / at the end
                prog(f"if_lonejump_fwd_{tag}", [("if", [(neg, conds, [("jump", "x")])], None), _u(1), ("label", "x"), _u(2)] + tail)
                prog(f"if_lonejump_end_{tag}", [_u(1), ("if", [(neg, conds, [("jump", "e")])], None), _u(2)] + tail + [("label", "e")])
                prog(f"if_lonejump_back_{tag}", [("label", "s"), _u(1), ("if", [(neg, conds, [("jump", "s")])], None)] + tail)
                prog(f"if_empty_{tag}", [_u(1), ("if", [(neg, conds, [])], None)] + tail)
                prog(f"if_body_{tag}", [("if", [(neg, conds, [_u(1)])], None)] + tail)
                prog(f"if_else_{tag}", [("if", [(neg, conds, [_u(1)])], [_u(2)])] + tail)
                prog(f"if_else_lonejump_{tag}", [("label", "s"), _u(3), ("if", [(neg, conds, [_u(1)])], [("jump", "s")])] + tail)
                prog(f"if_elseif_{tag}", [("if", [(neg, conds, [_u(1)]), (not neg, [_c(20)], [_u(2)]), (neg, [_c(21, 3)], [])], [_u(3)])] + tail)
                prog(f"if_elseif_lonejumps_{tag}", [("label", "s"), _u(4), ("if", [(neg, conds, [("jump", "s")]), (not neg, [_c(20)], [("jump", "e")])], None), _u(5)] + tail + [("label", "e")])
                prog(f"if_ret_{tag}", [("if", [(neg, conds, [_u(1), ("ctrl", "return")])], [_u(2), ("ctrl", "end")])] + tail)
                prog(f"if_nested_{tag}", [("if", [(neg, conds, [("if", [(not neg, [_c(30)], [_u(1)])], [_u(2)])])], None)] + tail)
    for tname, tail in term_variants:
        for neg in (False, True):
            tag = f"{tname}_neg{int(neg)}"
            prog(f"while_{tag}", [_u(1), ("while", neg, _c(10), [_u(2)])] + tail)
            prog(f"while_ctl_{tag}", [("while", neg, _c(10), [_u(2), ("if", [(False, [_c(11)], [("ctrl", "continue")])], None), ("if", [(True, [_c(12)], [("ctrl", "break_loop")])], None), _u(3)])] + tail)
            prog(f"while_empty_{tag}", [("while", neg, _c(10), [])] + tail)
            prog(f"while_lonejump_{tag}", [("while", neg, _c(10), [("jump", "e")]), _u(1)] + tail + [("label", "e")])
        prog(f"forever_{tname}", [("forever", [_u(1), ("if", [(False, [_c(10)], [("ctrl", "break_loop")])], None), _u(2)])] + tail)
        prog(f"forever_cont_{tname}", [("forever", [_u(1), ("if", [(False, [_c(10)], [("ctrl", "continue")])], [("ctrl", "break_loop")])])] + tail)
        prog(f"forever_nested_{tname}", [("forever", [_u(1), ("forever", [_u(2), ("if", [(False, [_c(10)], [("ctrl", "break_loop")])], None)]), ("if", [(True, [_c(11)], [("ctrl", "break_loop")])], None)])] + tail)
        prog(f"forever_two_exits_{tname}", [_u(0), ("forever", [_u(1), ("if", [(False, [_c(10)], [_u(2), ("ctrl", "break_loop")])], None),
                                                                ("if", [(False, [_c(11)], [("ctrl", "break_loop")])], None), _u(3)]), _u(4)] + tail)
        prog(f"while_break_with_stmt_{tname}", [("while", False, _c(10), [_u(1), ("if", [(False, [_c(11)], [_u(2), ("ctrl", "break_loop")])], None), _u(3)]), _u(4)] + tail)
        prog(f"if_else_nested_in_if_else_{tname}", [("if", [(False, [_c(10)], [("if", [(False, [_c(11)], [_u(1)])], [_u(2), _u(3)])])], [_u(4)]), _u(5)] + tail)
        prog(f"if_else_twice_nested_{tname}", [("if", [(False, [_c(10)], [("if", [(False, [_c(11)], [_u(1)])], [_u(2), _u(3)]), _u(6)]), (False, [_c(12)], [_u(7)])], [_u(4)]), _u(5)] + tail)
        prog(f"forever_onlybreak_{tname}", [("forever", [("ctrl", "break_loop")])] + tail)
        prog(f"for_{tname}", [("for", ("asg", ("flag_Set", (("const", "$I"), ("int", 1)))), _c(10), ("asg", ("flag_CalcValue", (("const", "$I"), ("int", 2), ("int", 2)))), [_u(3), ("if", [(False, [_c(11)], [("ctrl", "continue")])], None), ("if", [(False, [_c(12)], [("ctrl", "break_loop")])], None), _u(4)])] + tail)
        prog(f"for_empty_{tname}", [("for", _u(1), _c(10), _u(2), [])] + tail)
        # switches
        sw = ("Switch", (("int", 50),))
        case = lambda n: ("case", ("Case", (("int", n),)))
        prog(f"switch_basic_{tname}", [("switch", sw, [(case(1), [_u(1), ("ctrl", "break")]), (case(2), [_u(2)]), (("default",), [_u(3)])])] + tail)
        prog(f"switch_fall_{tname}", [("switch", sw, [(case(1), [_u(1)]), (case(2), []), (case(3), [_u(2), ("ctrl", "break")]), (case(4), [_u(3)])])] + tail)
        prog(f"switch_fall_into_lonejump_{tname}", [("label", "s"), _u(9), ("switch", sw, [(case(1), [_u(1)]), (case(2), []), (case(3), [("jump", "s")]), (case(4), [_u(2)])]), _u(3)] + tail)
        prog(f"switch_fall_into_onlybreak_{tname}", [("switch", sw, [(case(1), [_u(1)]), (case(2), []), (case(3), []), (case(4), [("ctrl", "break")]), (case(5), [_u(2)])]), _u(3)] + tail)
        prog(f"switch_default_first_{tname}", [("switch", sw, [(("default",), [_u(1)]), (case(1), [_u(2), ("ctrl", "break")]), (case(2), [_u(3)])])] + tail)
        prog(f"switch_default_mid_{tname}", [("switch", sw, [(case(1), [_u(1)]), (("default",), [_u(2), ("ctrl", "break")]), (case(2), [_u(3)])])] + tail)
        prog(f"switch_default_grouped_{tname}", [("switch", sw, [(case(1), []), (("default",), []), (case(2), [_u(3), ("ctrl", "break")]), (case(3), [_u(4)])])] + tail)
        prog(f"switch_onlybreak_{tname}", [("switch", sw, [(case(1), [("ctrl", "break")]), (case(2), [_u(2)]), (("default",), [("ctrl", "break")])])] + tail)
        prog(f"switch_lonejump_{tname}", [("label", "s"), _u(9), ("switch", sw, [(case(1), [_u(1)]), (case(2), [("jump", "s")]), (case(3), [_u(2)]), (("default",), [("jump", "e")])]), _u(3)] + tail + [("label", "e")])
        prog(f"switch_shared_block_{tname}", [_u(1), ("switch", sw, [(case(1), [("jump", "sh")]), (case(2), [_u(2), ("ctrl", "break")]), (case(3), [("jump", "sh")]),
                                                                      (case(4), [_u(3), ("ctrl", "break")]), (case(5), [("label", "sh"), _u(4), ("ctrl", "break")])]), _u(5)] + tail)
        prog(f"switch_shared_block_two_routines_{tname}",
             [_u(1), ("switch", sw, [(case(1), [("jump", "sh")]), (case(2), [_u(2), ("ctrl", "break")]), (case(3), [("jump", "sh")]),
                                     (case(4), [("label", "sh"), _u(4), ("ctrl", "break")])]), _u(5)] + tail,
             [[_u(11), ("switch", ("Switch", (("int", 51),)), [(case(1), [("jump", "sh2")]), (case(2), [_u(12), ("ctrl", "break")]), (case(3), [("jump", "sh2")]),
                                                                (case(4), [("label", "sh2"), _u(14), ("ctrl", "break")])]), _u(15), ("ctrl", "end")]])
        prog(f"switch_shared_block_default_{tname}", [("switch", sw, [(case(1), [("jump", "sh")]), (case(2), [_u(2), ("ctrl", "break")]),
                                                                       (("default",), [("label", "sh"), _u(4)])]), _u(5)] + tail)
        prog(f"switch_nocases_{tname}", [_u(1), ("switch", sw, [])] + tail)
        prog(f"switch_onlydefault_{tname}", [("switch", sw, [(("default",), [_u(1)])])] + tail)
        prog(f"switch_scn_{tname}", [("switch", ("SwitchScenario", (("int", 50),)), [(("case", ("CaseValue", (("int", 3), ("int", 1)))), [_u(1), ("ctrl", "break")]), (("case", ("CaseVariable", (("int", 4), ("const", "$B")))), [_u(2)])])] + tail)
        prog(f"switch_in_loop_{tname}", [("while", False, _c(10), [("switch", sw, [(case(1), [("ctrl", "continue")]), (case(2), [("ctrl", "break_loop")]), (("default",), [_u(1), ("ctrl", "break")])]), _u(2)])] + tail)
        prog(f"switch_ret_{tname}", [("switch", sw, [(case(1), [_u(1), ("ctrl", "return")]), (case(2), [_u(2), ("ctrl", "end")]), (("default",), [_u(3), ("ctrl", "hold")])])] + tail)
        # labels / jumps / calls
        prog(f"labels_{tname}", [("label", "a"), ("label", "b"), _u(1), ("if", [(False, [_c(10)], [("jump", "a")])], None), ("call", "b"), _u(2)] + tail)
        prog(f"label_end_{tname}", [_u(1), ("call", "e"), _u(2)] + tail + [("label", "e")])
        prog(f"label_only_{tname}", tail + [("label", "e")])
        prog(f"jump_dead_{tname}", [_u(1), ("jump", "e"), _u(2), ("label", "e"), _u(3)] + tail)
        prog(f"cross_{tname}", [_u(1), ("if", [(False, [_c(10)], [("jump", "r1")])], None)] + tail, [[("label", "r1"), _u(2), ("if", [(True, [_c(11)], [("jump", "e0")])], None), _u(3), ("label", "e0")]])
        prog(f"cross_into_if_block_{tname}", [("if", [(False, [_c(10)], [("label", "xb"), _u(1)])], None), _u(2)] + tail, [[_u(3), ("jump", "xb")]])
        prog(f"cross_into_if_block_ret_{tname}", [("if", [(False, [_c(10)], [("label", "xr"), _u(1), ("ctrl", "return")])], None), _u(2)] + tail, [[_u(3), ("jump", "xr")]])
        prog(f"cross_into_case_block_plainjump_{tname}", [("switch", sw, [(case(1), [_u(1), ("ctrl", "break")]), (case(2), [("label", "xp"), _u(2), ("ctrl", "break")])]), _u(3)] + tail,
             [[_u(4), ("jump", "xp")]])
        prog(f"cross_into_else_block_{tname}", [("if", [(True, [_c(10)], [_u(1)])], [("label", "xe"), _u(2)]), _u(3)] + tail,
             [[("if", [(False, [_c(11)], [("jump", "xe")])], None), _u(4), ("ctrl", "end")]])
        prog(f"cross_into_case_block_{tname}", [("switch", sw, [(case(1), [("label", "xc"), _u(1), ("ctrl", "break")]), (case(2), [_u(2)])]), _u(3)] + tail,
             [[_u(4), ("if", [(False, [_c(11)], [("jump", "xc")])], None), _u(5), ("ctrl", "end")]])
        # a label that is only reached from another routine, behind a flow-ending op and in front of a jump to the routine's end
        prog(f"cross_to_label_before_break_loop_{tname}", [("forever", [_u(1), ("ctrl", "return"), ("label", "xt"), ("ctrl", "break_loop")])] + tail, [[_u(2), ("jump", "xt")]])
        prog(f"cross_to_label_before_jump_to_end_{tname}", [_u(1), ("ctrl", "return"), ("label", "xj"), ("jump", "ej")] + tail + [("label", "ej")], [[_u(2), ("jump", "xj")]])
        prog(f"cross_call_to_label_before_jump_to_end_{tname}", [_u(1), ("ctrl", "end"), ("label", "xk"), ("jump", "ek")] + tail + [("label", "ek")], [[_u(2), ("call", "xk"), _u(3)]])
        prog(f"cross_to_label_in_last_if_{tname}", [("if", [(False, [_c(10)], [_u(1), ("ctrl", "end"), ("label", "xi")])], None)] + tail, [[_u(2), ("jump", "xi")]])
        prog(f"while_continue_if_break_{tname}", [("while", False, _c(10), [("if", [(False, [_c(11)], [("ctrl", "continue")])], None), _u(1),
                                                                               ("if", [(False, [_c(12)], [_u(2)])], None), ("ctrl", "break_loop")]), _u(3)] + tail)
        prog(f"with_{tname}", [("with", "actor", ("int", 3), _u(1)), ("with", "object", ("const", "OBJ"), ("asg", ("flag_Set", (("const", "$A"), ("int", 2))))), ("with", "performer", ("int", 0), ("ctrl", "end")), ("op", "op_7", [("int", 7)], ("actor", ("const", "ACTOR_X"))), _u(3)] + tail)
        prog(f"with_in_if_{tname}", [("if", [(False, [_c(10)], [("with", "actor", ("int", 3), ("ctrl", "return"))])], None), _u(1)] + tail)
        prog(f"msgswitch_{tname}", [("msgswitch", "message_SwitchTalk", ("const", "$V"), [(("case", ("int", 1)), ("str", "one")), (("case", ("int", 2)), ("lang", (("english", "two"),))), (("default",), ("str", "def"))]), _u(1)] + tail)
        prog(f"deadcode_{tname}", [_u(1), ("ctrl", "return"), _u(2), ("label", "x"), _u(3)] + tail)
    return out


# ------------------------------------------------------------------------------------------ G-FLAT
def flat_program(rnd: random.Random, nblocks=None, nroutines=None):
    """The C13 class: plain statements, if-chains and break-terminated switches whose blocks hold only plain
    statements, one final terminator per routine."""
    g = Gen(rnd, Cfg(labels=False, loops=False, ctrl_in_blocks=False, depth=0, switch_pairs='decompilable'))
    routines = []
    for ri in range(nroutines or rnd.randint(1, 3)):
        body = []
        for _ in range(nblocks if nblocks is not None else rnd.randint(1, 5)):
            c = rnd.random()
            if c < 0.35:
                body.append(g.plain())
            elif c < 0.7:
                brs = []
                for _ in range(rnd.choice([1, 1, 2, 3])):
                    brs.append((rnd.random() < 0.3, [g.cond() for _ in range(rnd.choice([1, 1, 2, 3]))],
                                [g.plain() for _ in range(rnd.randint(0, 3))]))
                els = [g.plain() for _ in range(rnd.randint(0, 3))] if rnd.random() < 0.5 else None
                body.append(("if", brs, els))
            else:
                hdr = g.swhdr()
                cases = []
                hasdef = False
                for _ in range(rnd.randint(1, 4)):
                    if not hasdef and rnd.random() < 0.25:
                        h = ("default",)
                        hasdef = True
                    else:
                        h = g.casehdr(hdr)
                    if rnd.random() < 0.25:
                        cases.append((h, []))
                    else:
                        cases.append((h, [g.plain() for _ in range(rnd.randint(1, 3))] + [("ctrl", "break")]))
                if not cases[-1][1]:
                    cases[-1] = (cases[-1][0], [g.plain(), ("ctrl", "break")])
                body.append(("switch", hdr, cases))
        body.append(("ctrl", rnd.choice(["return", "end", "hold"])))
        routines.append((("def", ri), body))
    return {"imports": [], "macros": [], "routines": routines}


def is_flat(prog):
    """membership in the C13 class"""
    plain = ("op", "asg", "with", "msgswitch")
    for hdr, body in prog["routines"]:
        if not body or body[-1][0] != "ctrl" or body[-1][1] not in ("return", "end", "hold"):
            return False
        for s in body[:-1]:
            if s[0] in plain:
                if s[0] == "with" and s[3][0] not in ("op", "asg"):
                    return False
                continue
            if s[0] == "if":
                for _, conds, b in s[1]:
                    if not conds or any(x[0] not in plain for x in b):
                        return False
                if s[2] is not None and any(x[0] not in plain for x in s[2]):
                    return False
            elif s[0] == "switch":
                if not s[2] or not s[2][-1][1]:
                    return False
                for h, b in s[2]:
                    if b and (b[-1] != ("ctrl", "break") or any(x[0] not in plain for x in b[:-1]) or len(b) < 2):
                        return False
            else:
                return False
    return not prog.get("macros")
