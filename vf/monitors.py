"""Monitors attached to the real code from the harness (no repository hooks).

K-COMPILE   post-conditions of ExplorerScriptSsbCompiler.compile / SsbScriptSsbCompiler.compile
            (C03 closedness, C08 totality, C10 exception classification), via icontract.ensure with
            named conditions that *record* and return True, plus a plain wrapper for exceptional exits.
K-DECOMPILE wrapper around both convert(): input snapshot (C11), result type, C09 key check, exception capture
K-SOURCEMAP icontract.snapshot + ensure on SourceMap.rewrite_offsets; wrappers on serialize / deserialize (C14)
K-TRACE     sys.monitoring PY_START set of repo functions reached

Every monitor counts its evaluations. Findings are appended to LOG (drained by the property drivers)."""
from __future__ import annotations

import copy
import functools
import sys

from vf.lts import JUMP_IDX, pkey

LOG = []  # list of dict(monitor, prop, sig, witness)
COUNTS = {}
_INSTALLED = False


def _count(k, n=1):
    COUNTS[k] = COUNTS.get(k, 0) + n


def _log(monitor, prop, sig, witness):
    _count(f"{monitor}:fired")
    if len(LOG) < 200:
        LOG.append({"monitor": monitor, "prop": prop, "sig": sig, "witness": witness})


def drain(prop=None):
    out = [x for x in LOG if prop is None or x["prop"] == prop]
    LOG[:] = [x for x in LOG if not (prop is None or x["prop"] == prop)]
    return out


# ---------------------------------------------------------------------------------- C03 / C08 oracle
def closedness_problems(routine_ops, routine_infos, named_coroutines):
    """C03: list of problems of a compilation result (empty = closed, uniquely addressed)."""
    probs = []
    if routine_ops is None or routine_infos is None or named_coroutines is None:
        return ["result attribute is None"]
    if not (len(routine_ops) == len(routine_infos) == len(named_coroutines)):
        probs.append(f"table lengths differ: ops={len(routine_ops)} infos={len(routine_infos)} names={len(named_coroutines)}")
    seen = {}
    for ri, r in enumerate(routine_ops):
        for op in r:
            tn = type(op).__name__
            if tn != "SsbOperation":
                probs.append(f"internal pseudo operation {tn} remains")
            if op.op_code.name.startswith(("ES_LABEL<", "ES_JUMP<", "ES_FOREIGN<", "ES_OR_MULTI_IF")):
                probs.append(f"internal opcode {op.op_code.name} remains")
            if op.offset in seen:
                probs.append(f"offset {op.offset} used twice (routines {seen[op.offset]} and {ri})")
            seen[op.offset] = ri
    for ri, r in enumerate(routine_ops):
        for op in r:
            name = op.op_code.name
            if name in JUMP_IDX:
                if len(op.params) == 0:
                    probs.append(f"{name}@{op.offset} has no parameters")
                    continue
                t = op.params[-1]
                if isinstance(t, bool) or not isinstance(t, int):
                    probs.append(f"{name}@{op.offset}: last parameter {t!r} is not an offset")
                elif t not in seen:
                    probs.append(f"{name}@{op.offset}: target {t} is not the offset of an op of the result")
                # (how many parameters precede the target is not C03's business: `if (BranchSum($V, 1))` written with too few
                # arguments gives an op with fewer parameters, the target is still the last one)
    return probs


def sourcemap_totality_problems(routine_ops, source_map):
    if source_map is None:
        return ["source_map is None"]
    probs = []
    for r in routine_ops or []:
        for op in r:
            if source_map.get_op_line_and_col(op.offset) is None:
                probs.append(f"no source map entry for {op.op_code.name}@{op.offset}")
    return probs


DOCUMENTED = None


def _documented():
    global DOCUMENTED
    if DOCUMENTED is None:
        from explorerscript.error import ParseError, SsbCompilerError

        DOCUMENTED = (ParseError, SsbCompilerError, ValueError)
    return DOCUMENTED


def _innermost_repo_frame(tb):
    last = None
    while tb is not None:
        fn = tb.tb_frame.f_code.co_filename
        if "/explorerscript/" in fn:
            last = f"{fn.split('/explorerscript/', 1)[1]}:{tb.tb_frame.f_code.co_name}"
        tb = tb.tb_next
    return last


# -------------------------------------------------------------------------------------------- install
def install():
    """Idempotent. Decorates the real classes in place."""
    global _INSTALLED
    if _INSTALLED:
        return
    _INSTALLED = True
    import icontract
    from explorerscript.ssb_converting import ssb_compiler as escm
    from explorerscript.ssb_script.ssb_converting import ssb_compiler as sscm
    from explorerscript.ssb_converting import ssb_decompiler as esdm
    from explorerscript.ssb_script.ssb_converting import ssb_decompiler as ssdm
    from explorerscript import source_map as smm

    class MonitorRecorded(Exception):
        pass

    # ---- K-COMPILE
    def es_compile_post(self, result, macros_only=False):
        _count("K-COMPILE:evaluations")
        if macros_only:
            return True
        for p in closedness_problems(self.routine_ops, self.routine_infos, self.named_coroutines)[:5]:
            _log("K-COMPILE", "C03", "closedness:" + p.split("@")[0].split(":")[0], {"problem": p})
        for p in sourcemap_totality_problems(self.routine_ops, self.source_map)[:5]:
            _log("K-COMPILE", "C08", "sourcemap-totality", {"problem": p})
        return True

    def wrap_exc(fn, which):
        @functools.wraps(fn)
        def w(self, *a, **kw):
            _count(f"K-COMPILE:{which}:calls")
            try:
                return fn(self, *a, **kw)
            except _documented():
                _count(f"K-COMPILE:{which}:documented-raise")
                raise
            except RecursionError:
                _count(f"K-COMPILE:{which}:recursion")
                raise
            except Exception as e:
                frame = _innermost_repo_frame(e.__traceback__)
                _log("K-COMPILE", "C10", f"undocumented-exception:{type(e).__name__}@{frame}",
                     {"type": type(e).__name__, "message": str(e)[:200], "frame": frame})
                raise

        return w

    escm.ExplorerScriptSsbCompiler.compile = wrap_exc(
        icontract.ensure(es_compile_post, error=MonitorRecorded)(escm.ExplorerScriptSsbCompiler.compile), "exps")

    def ss_compile_post(self, result):
        _count("K-COMPILE:evaluations")
        for p in closedness_problems(self.routine_ops, self.routine_infos, self.named_coroutines)[:5]:
            _log("K-COMPILE", "C03", "closedness:" + p.split("@")[0].split(":")[0], {"problem": p, "lang": "ssbs"})
        for p in sourcemap_totality_problems(self.routine_ops, self.source_map)[:5]:
            _log("K-COMPILE", "C08", "sourcemap-totality", {"problem": p, "lang": "ssbs"})
        return True

    sscm.SsbScriptSsbCompiler.compile = wrap_exc(
        icontract.ensure(ss_compile_post, error=MonitorRecorded)(sscm.SsbScriptSsbCompiler.compile), "ssbs")

    # ---- K-DECOMPILE
    def snapshot_ops(routine_ops):
        return [[(op.offset, op.op_code.name, tuple(pkey(p) for p in op.params)) for op in r] for r in routine_ops]

    def wrap_convert(fn, which):
        @functools.wraps(fn)
        def w(self, *a, **kw):
            _count(f"K-DECOMPILE:{which}:calls")
            given = self._routine_ops
            before = snapshot_ops(given)
            offsets = {op.offset for r in given for op in r}
            try:
                res = fn(self, *a, **kw)
            except Exception as e:
                frame = _innermost_repo_frame(e.__traceback__)
                _log("K-DECOMPILE", "C06", f"convert-raised:{type(e).__name__}@{frame}",
                     {"type": type(e).__name__, "message": str(e)[:200], "frame": frame, "which": which})
                after = snapshot_ops(given)
                if after != before:
                    _log("K-DECOMPILE", "C11", "input-altered-on-raise", {"which": which})
                raise
            _count(f"K-DECOMPILE:{which}:returns")
            after = snapshot_ops(given)
            if after != before:
                diff = next(((x, y) for ra, rb in zip(before, after) for x, y in zip(ra, rb) if x != y), None)
                _log("K-DECOMPILE", "C11", "input-altered", {"which": which, "first_diff": repr(diff)[:300]})
            if not (isinstance(res, tuple) and len(res) == 2 and isinstance(res[0], str)
                    and type(res[1]).__name__ == "SourceMap"):
                _log("K-DECOMPILE", "C06", "result-type", {"which": which, "type": repr(type(res))})
            else:
                bad = [k for k, _ in res[1] if k not in offsets]
                if bad:
                    _log("K-DECOMPILE", "C09", "map-key-not-an-input-offset", {"keys": bad[:5], "which": which})
            return res

        return w

    esdm.ExplorerScriptSsbDecompiler.convert = wrap_convert(esdm.ExplorerScriptSsbDecompiler.convert, "exps")
    ssdm.SsbScriptSsbDecompiler.convert = wrap_convert(ssdm.SsbScriptSsbDecompiler.convert, "ssbs")

    # ---- K-SOURCEMAP
    def sm_tables(sm):
        return {
            "map": {k: (v.line, v.column) for k, v in sm._mappings.items()},
            "macros": {k: macro_entry(v) for k, v in sm._mappings_macros.items()},
        }

    def snap_old(self):
        return sm_tables(self)

    def rewrite_post(self, new_mapping, OLD):
        _count("K-SOURCEMAP:rewrite:evaluations")
        for p in rewrite_problems(OLD.before, new_mapping, sm_tables(self))[:3]:
            _log("K-SOURCEMAP", "C14", "rewrite:" + p[0], {"problem": p[1]})
        return True

    smm.SourceMap.rewrite_offsets = icontract.snapshot(snap_old, name="before")(
        icontract.ensure(rewrite_post, error=MonitorRecorded)(smm.SourceMap.rewrite_offsets))

    orig_serialize = smm.SourceMap.serialize

    @functools.wraps(orig_serialize)
    def serialize(self, pretty=False):
        s = orig_serialize(self, pretty)
        if not getattr(_guard, "on", False):
            _guard.on = True
            try:
                _count("K-SOURCEMAP:serialize:evaluations")
                for p in roundtrip_problems(self, s, smm.SourceMap, orig_serialize, pretty)[:3]:
                    _log("K-SOURCEMAP", "C14", "roundtrip:" + p[0], {"problem": p[1]})
            finally:
                _guard.on = False
        return s

    smm.SourceMap.serialize = serialize


class _G:
    on = False


_guard = _G()


def macro_entry(v):
    ci = v.called_in
    return (v.relpath_included_file, v.macro_name, v.line, v.column, None if ci is None else tuple(ci), v.return_addr,
            tuple(sorted((str(k), repr(x)) for k, x in dict(v.parameter_mapping).items())))


def expected_rewrite(before, mapping):
    """15-line reference of rewrite_offsets (property C14)."""
    new_map = {mapping[k]: v for k, v in before["map"].items() if k in mapping}
    new_mac = {}
    keys = sorted(mapping)
    for k, v in before["macros"].items():
        if k not in mapping:
            continue
        r = v[5]
        if r is not None:
            if r in mapping:
                r = mapping[r]
            else:
                later = [x for x in keys if x > r]
                if later:
                    r = mapping[later[0]]
        new_mac[mapping[k]] = v[:5] + (r,) + v[6:]
    return {"map": new_map, "macros": new_mac}


def rewrite_problems(before, mapping, after):
    probs = []
    if len(set(mapping.values())) != len(mapping):
        return probs  # not injective: outside the property's quantifier
    exp = expected_rewrite(before, mapping)
    if exp["map"] != after["map"]:
        probs.append(("op-entries", {"expected": repr(exp["map"])[:300], "got": repr(after["map"])[:300]}))
    if set(exp["macros"]) != set(after["macros"]):
        probs.append(("macro-keys", {"expected": sorted(exp["macros"])[:20], "got": sorted(after["macros"])[:20]}))
    else:
        for k in exp["macros"]:
            if exp["macros"][k] != after["macros"][k]:
                probs.append(("macro-entry", {"offset": k, "expected": repr(exp["macros"][k])[:300],
                                              "got": repr(after["macros"][k])[:300], "mapping": repr(mapping)[:300]}))
                break
    return probs


def pm_tuple(m):
    return (m.line_number, m.column_number, m.end_line_number, m.end_column_number, m.name, m.x_offset, m.y_offset,
            m.x_relative, m.y_relative)


def roundtrip_problems(sm, text, SourceMap, orig_serialize, pretty=False):
    probs = []
    try:
        back = SourceMap.deserialize(text)
    except Exception as e:
        return [("deserialize-raised", f"{type(e).__name__}: {e}")]
    try:
        if not (back == sm):
            probs.append(("not-equal", "deserialize(serialize(m)) != m"))
    except Exception as e:
        probs.append(("eq-raised", f"{type(e).__name__}: {e}"))
    a = {"map": {k: (v.line, v.column) for k, v in sm._mappings.items()},
         "macros": {k: macro_entry(v) for k, v in sm._mappings_macros.items()},
         "pm": [pm_tuple(m) for m in sm._position_marks],
         "pmm": [(x[0], x[1], pm_tuple(x[2])) for x in sm._position_marks_macro]}
    b = {"map": {k: (v.line, v.column) for k, v in back._mappings.items()},
         "macros": {k: macro_entry(v) for k, v in back._mappings_macros.items()},
         "pm": [pm_tuple(m) for m in back._position_marks],
         "pmm": [(x[0], x[1], pm_tuple(x[2])) for x in back._position_marks_macro]}
    for k in a:
        if a[k] != b[k]:
            probs.append(("table-" + k, {"before": repr(a[k])[:200], "after": repr(b[k])[:200]}))
    for k, v in back._mappings_macros.items():
        if v.called_in is not None and not isinstance(v.called_in, tuple):
            probs.append(("called_in-type", f"{type(v.called_in).__name__} instead of tuple at {k}"))
            break
    if any(type(k) is not int for k in list(back._mappings) + list(back._mappings_macros)):
        probs.append(("key-type", "non-int offset keys after reload"))
    try:
        again = orig_serialize(back, pretty)
        if again != text:
            probs.append(("reserialize-differs", {"first": text[:200], "second": again[:200]}))
    except Exception as e:
        probs.append(("reserialize-raised", f"{type(e).__name__}: {e}"))
    return probs


# ---------------------------------------------------------------------------------------------- K-TRACE
class Trace:
    """sys.monitoring PY_START set of (file, qualname) reached under explorerscript/ ."""

    TOOL = 3

    def __init__(self):
        self.reached = set()
        self.on = False

    def start(self):
        mon = sys.monitoring
        try:
            mon.use_tool_id(self.TOOL, "vf-trace")
        except ValueError:
            return
        self.on = True

        def cb(code, off):
            fn = code.co_filename
            i = fn.find("/explorerscript/")
            if i >= 0 and "/antlr/" not in fn:
                self.reached.add((fn[i + 16:], code.co_qualname))
            return mon.DISABLE

        mon.register_callback(self.TOOL, mon.events.PY_START, cb)
        mon.set_events(self.TOOL, mon.events.PY_START)

    def stop(self):
        if self.on:
            sys.monitoring.set_events(self.TOOL, 0)
            sys.monitoring.free_tool_id(self.TOOL)
            self.on = False
        return self.reached


class StepCounter:
    """Interpreter-step counter (function entries/resumes inside explorerscript/ and igraph/) for the
    bounded-progress form of 'always answers' (C06)."""

    TOOL = 4

    def __init__(self, limit=None):
        self.n = 0
        self.limit = limit

    class Runaway(BaseException):
        pass

    def __enter__(self):
        mon = sys.monitoring
        mon.use_tool_id(self.TOOL, "vf-steps")
        ev = mon.events.PY_START | mon.events.PY_RESUME | mon.events.PY_THROW

        def cb(code, off, *a):
            self.n += 1
            if self.limit is not None and self.n > self.limit:
                raise StepCounter.Runaway()

        for e in (mon.events.PY_START, mon.events.PY_RESUME, mon.events.PY_THROW):
            mon.register_callback(self.TOOL, e, cb)
        mon.set_events(self.TOOL, ev)
        return self

    def __exit__(self, *a):
        sys.monitoring.set_events(self.TOOL, 0)
        sys.monitoring.free_tool_id(self.TOOL)
        return False
