"""Normal forms of compilation results and thin wrappers around the repo's public entry points."""
from __future__ import annotations

import copy
import json

from vf.env import PPL, DM_NAMES
from vf.lts import JUMP_IDX, pkey


def positional(routine_ops):
    """Positional normal form: per routine list of (opcode, params) with jump targets as ("J", routine, index).
    Independent of the offsets themselves."""
    pos = {}
    for ri, r in enumerate(routine_ops):
        for oi, op in enumerate(r):
            pos[op.offset] = (ri, oi)
    out = []
    for r in routine_ops:
        rr = []
        for op in r:
            ps = [pkey(p) for p in op.params]
            name = op.op_code.name
            if name in JUMP_IDX and len(op.params) > JUMP_IDX[name]:
                ji = JUMP_IDX[name]
                t = op.params[ji]
                ps[ji] = ("J",) + pos.get(t, ("?", t)) if isinstance(t, int) else ("J?", repr(t))
            rr.append((name, tuple(ps)))
        out.append(rr)
    return out


def raw(routine_ops):
    """Normal form including the raw offsets."""
    return [[(op.offset, op.op_code.name, tuple(pkey(p) for p in op.params)) for op in r] for r in routine_ops]


def infos(routine_infos, named_coroutines):
    out = []
    for i, inf in enumerate(routine_infos or []):
        if inf is None:
            out.append(None)
            continue
        name = None
        if named_coroutines is not None and i < len(named_coroutines) and isinstance(named_coroutines[i], str):
            name = named_coroutines[i]
        out.append((inf.type.name, inf.linked_to, inf.linked_to_name, name))
    return out


def renumber(routine_ops, start=0, gap=None):
    """What an assembler / binary reader does: offsets increasing through the file (optionally with gaps),
    jump targets patched. Returns deep copies."""
    ops = copy.deepcopy(routine_ops)
    mapping = {}
    n = start
    for r in ops:
        for op in r:
            mapping[op.offset] = n
            n += 1 if gap is None else gap()
    for r in ops:
        for op in r:
            op.offset = mapping[op.offset]
            name = op.op_code.name
            if name in JUMP_IDX and len(op.params) > JUMP_IDX[name]:
                ji = JUMP_IDX[name]
                if isinstance(op.params[ji], int) and op.params[ji] in mapping:
                    op.params[ji] = mapping[op.params[ji]]
    return ops, mapping


SHUFFLE_COROUTINES = [None]  # a random.Random: the table of named coroutines is handed over in random order (it is keyed by id)


def coroutines(named):
    from explorerscript.ssb_converting.ssb_data_types import SsbCoroutine

    out = [SsbCoroutine(i, n) for i, n in enumerate(named or []) if isinstance(n, str)]
    if SHUFFLE_COROUTINES[0] is not None:
        SHUFFLE_COROUTINES[0].shuffle(out)
    return out


def dm_constants(names=None):
    from explorerscript.ssb_converting.ssb_data_types import DungeonModeConstants

    return DungeonModeConstants(*(names or DM_NAMES))


def compile_exps(text, path="/nonexistent/verif/main.exps", lookup=None, compiler=None):
    from explorerscript.ssb_converting.ssb_compiler import ExplorerScriptSsbCompiler

    c = compiler or ExplorerScriptSsbCompiler(PPL, list(lookup or []))
    c.compile(text, path)
    return c


def compile_ssbs(text):
    from explorerscript.ssb_script.ssb_converting.ssb_compiler import SsbScriptSsbCompiler

    c = SsbScriptSsbCompiler()
    c.compile(text)
    return c


def decompile_exps(routine_infos, routine_ops, named, deep=True, dm=None):
    from explorerscript.ssb_converting.ssb_decompiler import ExplorerScriptSsbDecompiler

    ops = copy.deepcopy(routine_ops) if deep else routine_ops
    d = ExplorerScriptSsbDecompiler(routine_infos, ops, coroutines(named), PPL, dm_constants(dm))
    return d.convert()


def decompiler_exps(routine_infos, routine_ops, named):
    """the decompiler object itself (on a deep copy of the ops), for callers that use it more than once"""
    from explorerscript.ssb_converting.ssb_decompiler import ExplorerScriptSsbDecompiler

    return ExplorerScriptSsbDecompiler(routine_infos, copy.deepcopy(routine_ops), coroutines(named), PPL, dm_constants())


def decompile_ssbs(routine_infos, routine_ops, named, deep=True):
    from explorerscript.ssb_script.ssb_converting.ssb_decompiler import SsbScriptSsbDecompiler

    ops = copy.deepcopy(routine_ops) if deep else routine_ops
    d = SsbScriptSsbDecompiler(routine_infos, ops, coroutines(named))
    return d.convert()


def is_fallback(text: str) -> bool:
    return text.startswith("//?: is-ssb-script: true\n")


def jdump(x) -> str:
    return json.dumps(x, sort_keys=True, default=repr, ensure_ascii=False)


def make_ops(spec):
    """Build repo objects from a plain description:
    spec = {"routines": [{"kind": "GENERIC"|..., "target": int|str|None, "name": str|None,
                          "ops": [(offset, opcode, [params...])]}]}
    params use my AST param tuples; jump targets are plain ints."""
    from explorerscript.ssb_converting.ssb_data_types import (
        SsbOperation, SsbOpCode, SsbRoutineInfo, SsbRoutineType,
    )

    infos_, ops_, names = [], [], []
    for r in spec["routines"]:
        t = SsbRoutineType[r["kind"]]
        tgt = r.get("target")
        if t in (SsbRoutineType.GENERIC, SsbRoutineType.COROUTINE):
            infos_.append(SsbRoutineInfo(t, 0))
        elif isinstance(tgt, int):
            infos_.append(SsbRoutineInfo(t, tgt))
        else:
            infos_.append(SsbRoutineInfo(t, -1, tgt))
        names.append(r.get("name") if r.get("name") is not None else [])
        ops_.append([SsbOperation(off, SsbOpCode(-1, name), [to_param(p) for p in ps]) for off, name, ps in r["ops"]])
    return infos_, ops_, names


def to_param(p):
    from explorerscript.ssb_converting.ssb_data_types import (
        SsbOpParamConstant, SsbOpParamConstString, SsbOpParamFixedPoint, SsbOpParamLanguageString,
        SsbOpParamPositionMarker,
    )

    if isinstance(p, int):
        return p
    k = p[0]
    if k == "int":
        return p[1]
    if k == "const":
        return SsbOpParamConstant(p[1])
    if k == "str":
        return SsbOpParamConstString(p[1])
    if k == "fp":
        fp = SsbOpParamFixedPoint(0, "0")
        fp.value = p[1]
        return fp
    if k == "lang":
        return SsbOpParamLanguageString(dict(p[1]))
    if k == "pos":
        return SsbOpParamPositionMarker(p[1], p[2], p[3], p[4], p[5])
    raise TypeError(p)


def spec_of(routine_infos, routine_ops, named):
    """Inverse of make_ops (JSON-able description of an SSB routine set)."""
    rs = []
    for i, (inf, ops) in enumerate(zip(routine_infos, routine_ops)):
        name = named[i] if named is not None and i < len(named) and isinstance(named[i], str) else None
        tgt = None
        if inf is not None and inf.type.name in ("ACTOR", "OBJECT", "PERFORMER"):
            tgt = inf.linked_to_name if inf.linked_to == -1 else inf.linked_to
        rs.append({
            "kind": inf.type.name if inf is not None else None, "target": tgt, "name": name,
            "ops": [(op.offset, op.op_code.name, [_plain(p) for p in op.params]) for op in ops],
        })
    return {"routines": rs}


def _plain(p):
    k = pkey(p)
    if k[0] == "int":
        return k[1]
    if k[0] == "lang":
        return ["lang", [list(x) for x in k[1]]]
    return list(k)


def spec_from_json(spec):
    """JSON lists back to the tuple form make_ops expects."""
    def par(p):
        if isinstance(p, int):
            return p
        if p[0] == "lang":
            return ("lang", tuple(tuple(x) for x in p[1]))
        return tuple(p)

    return {"routines": [dict(r, ops=[(o[0], o[1], [par(p) for p in o[2]]) for o in r["ops"]]) for r in spec["routines"]]}
