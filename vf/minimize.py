"""AST-level delta debugging: shrink a program while a predicate (the same monitor keeps firing) holds."""
from __future__ import annotations


def _variants_list(ss):
    """yield smaller versions of a statement list"""
    n = len(ss)
    # drop chunks, then single statements
    if n > 3:
        h = n // 2
        yield ss[:h]
        yield ss[h:]
    for i in range(n):
        yield ss[:i] + ss[i + 1:]
    for i, s in enumerate(ss):
        for v in _variants_stmt(s):
            if isinstance(v, list):
                yield ss[:i] + v + ss[i + 1:]
            else:
                yield ss[:i] + [v] + ss[i + 1:]


def _variants_stmt(s):
    k = s[0]
    if k == "op":
        if s[2]:
            yield ("op", s[1], [], s[3])
            for i in range(len(s[2])):
                yield ("op", s[1], list(s[2][:i]) + list(s[2][i + 1:]), s[3])
        if s[3]:
            yield ("op", s[1], s[2], None)
    elif k == "with":
        yield [s[3]]
    elif k == "if":
        brs, els = s[1], s[2]
        for _, _, b in brs:
            yield list(b)
        if els is not None:
            yield list(els)
            yield ("if", brs, None)
        if len(brs) > 1:
            for i in range(len(brs)):
                yield ("if", brs[:i] + brs[i + 1:], els)
        for i, (neg, conds, b) in enumerate(brs):
            if neg:
                yield ("if", brs[:i] + [(False, conds, b)] + brs[i + 1:], els)
            if len(conds) > 1:
                for j in range(len(conds)):
                    yield ("if", brs[:i] + [(neg, conds[:j] + conds[j + 1:], b)] + brs[i + 1:], els)
            for vb in _variants_list(list(b)):
                yield ("if", brs[:i] + [(neg, conds, vb)] + brs[i + 1:], els)
        if els is not None:
            for vb in _variants_list(list(els)):
                yield ("if", brs, vb)
    elif k == "switch":
        cases = s[2]
        for _, b in cases:
            yield [x for x in b if x != ("ctrl", "break")]
        for i in range(len(cases)):
            yield ("switch", s[1], cases[:i] + cases[i + 1:])
        for i, (h, b) in enumerate(cases):
            for vb in _variants_list(list(b)):
                yield ("switch", s[1], cases[:i] + [(h, vb)] + cases[i + 1:])
    elif k == "msgswitch":
        if len(s[3]) > 1:
            for i in range(len(s[3])):
                yield ("msgswitch", s[1], s[2], s[3][:i] + s[3][i + 1:])
    elif k == "forever":
        yield [x for x in s[1] if x[0] != "ctrl" or x[1] not in ("continue", "break_loop")]
        for vb in _variants_list(list(s[1])):
            yield ("forever", vb)
    elif k == "while":
        yield [x for x in s[3] if x[0] != "ctrl" or x[1] not in ("continue", "break_loop")]
        if s[1]:
            yield ("while", False, s[2], s[3])
        for vb in _variants_list(list(s[3])):
            yield ("while", s[1], s[2], vb)
    elif k == "for":
        for vb in _variants_list(list(s[4])):
            yield ("for", s[1], s[2], s[3], vb)
    elif k == "macro":
        if s[2]:
            yield ("macro", s[1], [])


def _variants_prog(prog):
    rs = prog["routines"]
    ms = prog.get("macros", [])
    if len(rs) > 1:
        for i in range(len(rs) - 1, -1, -1):
            # keep ids dense: only drop from the end, or renumber
            new = rs[:i] + rs[i + 1:]
            new = [(_renum(h, j), b) for j, (h, b) in enumerate(new)]
            yield dict(prog, routines=new)
    for i in range(len(ms)):
        yield dict(prog, macros=ms[:i] + ms[i + 1:])
    for i, (h, b) in enumerate(rs):
        if b is None:
            continue
        for vb in _variants_list(list(b)):
            if vb:
                yield dict(prog, routines=rs[:i] + [(h, vb)] + rs[i + 1:])
        if h[0] == "for":
            yield dict(prog, routines=rs[:i] + [(("def", h[1]), b)] + rs[i + 1:])
    for i, m in enumerate(ms):
        for vb in _variants_list(list(m[2])):
            if vb:
                yield dict(prog, macros=ms[:i] + [(m[0], m[1], vb)] + ms[i + 1:])


def _renum(h, j):
    if h[0] == "def":
        return ("def", j)
    if h[0] == "for":
        return ("for", j) + tuple(h[2:])
    return h


def minimize(prog, predicate, budget=400):
    """Greedy first-improvement shrinking. predicate(prog) -> bool (True = still failing the same way)."""
    best = prog
    tries = 0
    improved = True
    while improved and tries < budget:
        improved = False
        for cand in _variants_prog(best):
            tries += 1
            if tries > budget:
                break
            try:
                ok = predicate(cand)
            except Exception:
                ok = False
            if ok:
                best = cand
                improved = True
                break
    return best


# ------------------------------------------------------------------------------------ SSB level shrinking
def _ssb_variants(spec):
    from vf.lts import JUMP_IDX

    rs = spec["routines"]
    # drop a whole routine if nothing jumps into it (targets elsewhere are kept valid by retargeting to first op of next)
    offs_of = [[o[0] for o in r["ops"]] for r in rs]

    def retarget(ops_all, removed, to):
        out = []
        for r in ops_all:
            nr = []
            for off, name, ps in r:
                ps = list(ps)
                if name in JUMP_IDX and len(ps) > JUMP_IDX[name]:
                    t = ps[JUMP_IDX[name]]
                    tv = t[1] if isinstance(t, (list, tuple)) else t
                    if tv in removed:
                        ps[JUMP_IDX[name]] = to[tv]
                nr.append((off, name, ps))
            out.append(nr)
        return out

    all_offs = [o for r in offs_of for o in r]
    for ri in range(len(rs) - 1, -1, -1):
        for oi in range(len(rs[ri]["ops"]) - 1, -1, -1):
            if len(rs[ri]["ops"]) == 1 and len(rs) == 1:
                continue
            off = rs[ri]["ops"][oi][0]
            # successor: next op in the same routine, else previous op, else any other op
            if oi + 1 < len(rs[ri]["ops"]):
                to = rs[ri]["ops"][oi + 1][0]
            elif oi > 0:
                to = rs[ri]["ops"][oi - 1][0]
            else:
                others = [o for o in all_offs if o != off]
                if not others:
                    continue
                to = others[0]
            new_ops = [[o for o in r["ops"] if o[0] != off] for r in rs]
            new_ops = retarget(new_ops, {off}, {off: to})
            yield {"routines": [dict(r, ops=no) for r, no in zip(rs, new_ops)]}
    # simplify parameters
    for ri, r in enumerate(rs):
        for oi, (off, name, ps) in enumerate(r["ops"]):
            if name in JUMP_IDX:
                continue
            if ps:
                new = [list(x["ops"]) for x in rs]
                new[ri][oi] = (off, name, [])
                yield {"routines": [dict(x, ops=no) for x, no in zip(rs, new)]}


def minimize_ssb(spec, predicate, budget=600):
    best = spec
    tries = 0
    improved = True
    while improved and tries < budget:
        improved = False
        for cand in _ssb_variants(best):
            tries += 1
            if tries > budget:
                break
            try:
                ok = predicate(cand)
            except Exception:
                ok = False
            if ok:
                best = cand
                improved = True
                break
    return best
