"""Shared machinery of C11 (histories) and C12 (schedules): a pool of compile / decompile jobs, the canonical result
record of one call, golden results from fresh processes, and K-CACHE (memo provenance monitor of graph_utils)."""
from __future__ import annotations

import gc
import hashlib
import json
import os
import random
import re
import subprocess
import sys
import threading
import weakref

from vf import norm
from vf.env import PY, REPO, VERIF

_ADDR = re.compile(r"0x[0-9a-fA-F]{6,}")


# ------------------------------------------------------------------------------------------------ jobs
def make_pool(seed, n, scratch):
    """n jobs (JSON-able dicts). Compile jobs: valid programs with and without macros, statically invalid programs,
    corrupted texts, SsbScript texts, programs that use a macro / label only another job defines (must fail whatever
    ran before), macro layouts on disk under `scratch`. Decompile jobs (both decompilers): well-formed routine sets that
    decompile structured, fall back, or make the structuring passes give up half way."""
    from vf import invalid
    from vf.common import exps_workload
    from vf.decomp import ssb_workload
    from vf.esast import print_program
    from vf.macrogen import make_layout

    rnd = random.Random(seed)
    jobs = []
    share = max(1, n // 10)
    # valid programs (a quarter with same-file macros)
    for name, prog in exps_workload({"kind": "random", "seed": rnd.randrange(1 << 40), "n": share * 3, "depth": 2, "macro_share": 0.4}):
        text = print_program(prog).text
        jobs.append({"k": "compile", "text": text, "cls": "valid"})
        if prog.get("macros") and rnd.random() < 0.7:
            # a program that calls the macros of the previous job without defining them: fails in a fresh process
            m = prog["macros"][0]
            call = f"~{m[0]}({', '.join('1' for _ in m[1])});"
            jobs.append({"k": "compile", "text": "def 0 {\n    " + call + "\n    end;\n}\n", "cls": "needs-foreign-macro", "after": text})
        elif rnd.random() < 0.3:
            jobs.append({"k": "compile", "text": "def 0 {\n    jump @label_of_another_program;\n}\n", "cls": "needs-foreign-label"})
    # invalid
    for name, prog in exps_workload({"kind": "random", "seed": rnd.randrange(1 << 40), "n": share, "depth": 2}):
        text = print_program(prog).text
        r2 = random.Random(rnd.randrange(1 << 40))
        try:
            bad = invalid.corrupt(text, r2)
        except Exception:
            bad = text[: len(text) // 2]
        jobs.append({"k": "compile", "text": bad, "cls": "corrupted"})
    for t in rnd.sample(invalid.DEGENERATE, min(share, len(invalid.DEGENERATE))):
        jobs.append({"k": "compile", "text": t, "cls": "degenerate"})
    # layouts on disk
    for i in range(max(1, share // 2)):
        lay = make_layout(random.Random(rnd.randrange(1 << 40)))
        root = os.path.join(scratch, f"lay{seed & 0xffff}_{i}")
        lay.root_override = root
        _write_layout(lay, root)
        with open(os.path.join(root, lay.main_key), encoding="utf-8") as f:
            text = f.read()
        lookup = [os.path.join(root, k) for k in lay.lookup_keys]
        jobs.append({"k": "compile", "text": text, "path": os.path.join(root, lay.main_key), "lookup": lookup, "cls": "layout",
                     "libs": [os.path.join(root, k) for k in lay.files if k != lay.main_key]})
        # one of the imported files compiled on its own (histories like to do that first, on the same compiler object)
        libs = [k for k in lay.files if k != lay.main_key]
        if libs:
            lk = rnd.choice(libs)
            with open(os.path.join(root, lk), encoding="utf-8") as f:
                ltext = f.read()
            jobs.append({"k": "compile", "text": ltext, "path": os.path.join(root, lk), "lookup": lookup, "cls": "layout-lib", "keep": i == 0})
            # ... or an edited version of it that does not compile (an editor compiles the buffer, the file on disk is still fine)
            broken = 'import "./does_not_exist_anywhere.exps";\n' + ltext
            jobs.append({"k": "compile", "text": broken, "path": os.path.join(root, lk), "lookup": lookup, "cls": "layout-lib-broken", "keep": i == 0})
            jobs[-3]["after"] = rnd.choice([ltext, broken])
            jobs[-3]["keep"] = i == 0
    # two imported files define a macro of the same name: whichever wins, it has to be the same one in every process
    root = os.path.join(scratch, f"clash{seed & 0xffff}")
    os.makedirs(os.path.join(root, "lib"), exist_ok=True)
    names = rnd.sample(["alpha", "beta", "gamma", "delta", "omega", "zeta", "a", "zz"], 3)
    imps = ""
    for nm in names:
        with open(os.path.join(root, "lib", nm + ".exps"), "w", encoding="utf-8") as f:
            f.write(f"macro same_name() {{\n    from_{nm}();\n}}\nmacro only_{nm}() {{\n    x_{nm}();\n}}\n")
        imps += f'import "./lib/{nm}.exps";\n'
    text = imps + "def 0 {\n    ~same_name();\n    " + " ".join(f"~only_{nm}();" for nm in names) + "\n    end;\n}\n"
    with open(os.path.join(root, "main.exps"), "w", encoding="utf-8") as f:
        f.write(text)
    jobs.append({"k": "compile", "text": text, "path": os.path.join(root, "main.exps"), "lookup": [], "cls": "macro-name-clash", "keep": True, "hashseeds": 5})
    # two scripts in different directories that share macro files (one macro file calling into another): compiled one after
    # the other on one compiler object, each has to get the source map (relative paths!) a fresh process gives it
    root = os.path.join(scratch, f"shared{seed & 0xffff}")
    for d in ("lib", "p1", "p2/deep"):
        os.makedirs(os.path.join(root, d), exist_ok=True)
    with open(os.path.join(root, "lib", "c.exps"), "w", encoding="utf-8") as f:
        f.write("macro inner($x) {\n    c_op($x, Position<'pm', 1, 2>);\n}\n")
    with open(os.path.join(root, "lib", "b.exps"), "w", encoding="utf-8") as f:
        f.write('import "./c.exps";\nmacro outer($y) {\n    b_op($y);\n    ~inner($y);\n    if (debug) {\n        ~inner(3);\n    }\n}\n')
    t1 = 'import "../lib/b.exps";\ndef 0 {\n    ~outer(1);\n    end;\n}\n'
    t2 = 'import "../../lib/b.exps";\ndef 0 {\n    m2();\n    ~outer(2);\n    ~inner(4);\n    end;\n}\n'
    for rel, t in (("p1/main.exps", t1), ("p2/deep/main.exps", t2)):
        with open(os.path.join(root, rel), "w", encoding="utf-8") as f:
            f.write(t)
    jobs.append({"k": "compile", "text": t1, "path": os.path.join(root, "p1/main.exps"), "lookup": [], "cls": "shared-lib-1", "keep": True})
    jobs.append({"k": "compile", "text": t2, "path": os.path.join(root, "p2/deep/main.exps"), "lookup": [], "cls": "shared-lib-2", "keep": True, "after": t1})
    # two projects with the same layout (main.exps + lib/common.exps) and one options list with a *relative* lookup path, as a
    # build script has it: each main file has to get the macros of its own directory, whichever was compiled first
    root = os.path.join(scratch, f"rel{seed & 0xffff}")
    texts = []
    for k, d in enumerate(("q1", "q2/sub")):
        os.makedirs(os.path.join(root, d, "lib"), exist_ok=True)
        with open(os.path.join(root, d, "lib", "common.exps"), "w", encoding="utf-8") as f:
            f.write(f"macro common($x) {{\n    from_project_{k}($x);\n" + ("    more();\n" if k else "") + "}\n")
        t = f'import "common.exps";\ndef 0 {{\n    p{k}();\n    ~common({k});\n    end;\n}}\n'
        with open(os.path.join(root, d, "main.exps"), "w", encoding="utf-8") as f:
            f.write(t)
        texts.append(t)
        jobs.append({"k": "compile", "text": t, "path": os.path.join(root, d, "main.exps"), "lookup": ["lib"], "lookup_shared": True,
                     "cls": f"relative-lookup-{k + 1}", "keep": True})
    jobs[-1]["after"] = texts[0]
    jobs[-2]["after"] = texts[1]
    # the same routines decompiled for two games whose settings name the dungeon modes differently (the names are an option of
    # each decompiler object)
    try:
        cd = norm.compile_exps("def 0 {\n    dungeon_mode(3) = DMODE_OPEN;\n    dungeon_mode(4) = DMODE_REQUEST;\n    switch (dungeon_mode(5)) {\n        case DMODE_CLOSED:\n"
                               "            a();\n            break;\n        case DMODE_OPEN_AND_REQUEST:\n            b();\n            break;\n    }\n    end;\n}\n")
        dspec = json.loads(json.dumps(norm.spec_of(cd.routine_infos, cd.routine_ops, cd.named_coroutines)))
        for tag, names in (("a", ["A_CLOSED", "A_OPEN", "A_REQUEST", "A_OPEN_AND_REQUEST"]), ("b", ["MODE_0", "MODE_1", "MODE_2", "MODE_3"])):
            jobs.append({"k": "decompile_exps", "spec": dspec, "dm": names, "cls": "dungeon-mode-names-" + tag, "keep": True})
    except Exception:
        pass
    # a script with several hundred routines, like the game's unionall (tables and caches have sizes)
    nr = rnd.choice([520, 600, 700])
    big = "".join(f"coro C{i} {{\n    if ($A == {i}) {{\n        a{i}();\n    }} else {{\n        b();\n    }}\n    end;\n}}\n" for i in range(nr))
    try:
        cb = norm.compile_exps(big)
        jobs.append({"k": "decompile_exps", "spec": json.loads(json.dumps(norm.spec_of(cb.routine_infos, cb.routine_ops, cb.named_coroutines))),
                     "cls": "many-routines", "keep": True})
    except Exception:
        pass
    # deeply nested programs: whether they compile depends on the interpreter's recursion limit, which must not depend on history
    for depth in [rnd.choice([40, 90]), rnd.choice([150, 220]), rnd.choice([320, 400])]:
        body = "a();"
        for d in range(depth):
            body = f"if ($A == {d}) {{ {body} }}"
        jobs.append({"k": "compile", "text": "def 0 { " + body + " end; }", "cls": "deep-nesting", "keep": depth >= 150})
    # decompile jobs
    kinds = ["compiled", "compiled", "relaid", "cfg", "special", "flat"]
    for kind in kinds:
        for name, infos, ops, named, meta in ssb_workload({"kind": kind, "seed": rnd.randrange(1 << 40), "n": share, "max_ops": 12}):
            spec = norm.spec_of(infos, ops, named)
            which = "decompile_ssbs" if rnd.random() < 0.2 else "decompile_exps"
            jobs.append({"k": which, "spec": json.loads(json.dumps(spec)), "cls": kind})
            if rnd.random() < 0.25:
                # the SsbScript spelling as a compile job (dispatch on the marker line)
                try:
                    t, _ = norm.decompile_ssbs(infos, ops, named)
                    jobs.append({"k": "compile", "text": "//?: is-ssb-script: true\n" + t, "cls": "ssbscript"})
                except Exception:
                    pass
    rnd.shuffle(jobs)
    # (jobs that exist for a particular kind of history / schedule survive the cut)
    jobs.sort(key=lambda j: 0 if j.get("keep") else 1)
    jobs = jobs[:n]
    rnd.shuffle(jobs)
    for i, j in enumerate(jobs):
        j["id"] = i
    by_text = {j.get("text"): j["id"] for j in jobs if j["k"] == "compile"}
    for j in jobs:
        if "after" in j:
            # the job whose macros this one calls (histories like to run it right before, on the same compiler object)
            j["provider"] = by_text.get(j.pop("after"))
    return jobs


def _write_layout(lay, root):
    from vf.esast import Printer, render

    for key, prog in lay.files.items():
        p = os.path.join(root, key)
        os.makedirs(os.path.dirname(p), exist_ok=True)
        imps = [os.path.join(root, spec) if kind == "abs" else spec for kind, spec in prog.get("imports", [])]
        with open(p, "w", encoding="utf-8") as f:
            f.write(render(Printer().program(dict(prog, imports=imps))).text)
    for lk in lay.lookup_keys:
        os.makedirs(os.path.join(root, lk), exist_ok=True)


# --------------------------------------------------------------------------------------------- one call
def _exc(e):
    return {"ok": False, "exc": type(e).__name__, "msg": _ADDR.sub("0x?", str(e))[:400]}


def build_input(job):
    """repo objects of a decompile job (built once per history so that the same objects can be handed in again)"""
    return norm.make_ops(norm.spec_from_json(job["spec"]))


def compute(job, compiler=None, objs=None):
    """Runs the real entry point once and returns the canonical result record (everything a caller can observe)."""
    if job["k"] == "compile":
        try:
            c = norm.compile_exps(job["text"], job.get("path") or "/nonexistent/verif/main.exps", job.get("lookup"), compiler=compiler)
        except Exception as e:
            return _exc(e)
        return {"ok": True, "ops": json.loads(json.dumps(norm.raw(c.routine_ops))), "infos": json.loads(json.dumps(norm.infos(c.routine_infos, c.named_coroutines))),
                "sm": c.source_map.serialize() if c.source_map is not None else None,
                "macros": sorted((c.macros or {}).keys()) if hasattr(c, "macros") and isinstance(c.macros, dict) else None,
                "imports": list(c.imports) if getattr(c, "imports", None) is not None else None}
    infos, ops, named = objs if objs is not None else build_input(job)
    before = (norm.raw(ops), norm.infos(infos, named))
    fn = norm.decompile_exps if job["k"] == "decompile_exps" else norm.decompile_ssbs
    try:
        text, sm = fn(infos, ops, named, deep=False, dm=job["dm"]) if job.get("dm") else fn(infos, ops, named, deep=False)
        res = {"ok": True, "text": text, "sm": sm.serialize() if sm is not None else None}
    except Exception as e:
        res = _exc(e)
    after = (norm.raw(ops), norm.infos(infos, named))
    res["input_unchanged"] = before == after
    if before != after:
        res["input_change"] = _first_diff(before[0], after[0])
    return res


def _first_diff(a, b):
    if len(a) != len(b):
        return {"routines": [len(a), len(b)]}
    for ri, (x, y) in enumerate(zip(a, b)):
        if len(x) != len(y):
            return {"routine": ri, "ops": [len(x), len(y)]}
        for oi, (p, q) in enumerate(zip(x, y)):
            if p != q:
                return {"routine": ri, "index": oi, "before": repr(p)[:200], "after": repr(q)[:200]}
    return {"tables": True}


def digest(res):
    return hashlib.sha256(json.dumps(res, sort_keys=True, ensure_ascii=True, default=repr).encode()).hexdigest()[:16]


def diff_fields(a, b):
    keys = sorted(set(a) | set(b))
    return [k for k in keys if a.get(k) != b.get(k)]


# ------------------------------------------------------------------------------------- fresh-process goldens
def golden(job, hashseed="0", timeout=120):
    """The result record of `job` computed by a fresh interpreter on the current tree. None = the fresh process failed."""
    env = dict(os.environ, PYTHONPATH=REPO + os.pathsep + VERIF, PYTHONHASHSEED=str(hashseed), PYTHONDONTWRITEBYTECODE="1", VERIF_REPO=REPO)
    p = subprocess.run([PY, "-m", "vf.hist"], input=json.dumps(job), capture_output=True, text=True, env=env, timeout=timeout)
    if p.returncode != 0:
        return None
    try:
        return json.loads(p.stdout)
    except Exception:
        return None


def goldens(jobs, hashseeds=("0",), threads=4):
    """job id -> {hashseed -> record}; run with a few concurrent fresh processes"""
    out = {j["id"]: {} for j in jobs}
    todo = [(j, h) for j in jobs for h in hashseeds]
    lock = threading.Lock()

    def work():
        while True:
            with lock:
                if not todo:
                    return
                j, h = todo.pop()
            r = golden(j, h)
            with lock:
                out[j["id"]][h] = r

    ts = [threading.Thread(target=work) for _ in range(threads)]
    for t in ts:
        t.start()
    for t in ts:
        t.join()
    return out


# ------------------------------------------------------------------------------------------------ K-CACHE
class KCache:
    """Memo provenance monitor for graph_utils.find_first_common_next_vertex_in_edges. Wraps the function and the cache
    clear (module attribute and the names imported into graph_minimizer). For every cache dict it remembers (weakly) the
    graph instance it was created for; a lookup that is answered from a dict created for another graph instance (recycled
    id()) is a `hit-foreign` event, re-computed without the memo and compared."""

    def __init__(self):
        self.lock = threading.RLock()
        self.owner = {}  # id(g) -> weakref of the graph the cache dict belongs to
        self.counts = {}
        self.events = []
        self.installed = False
        self._orphans = set()
        self._alive = set()
        self.plant = False

    def c(self, k, n=1):
        with self.lock:
            self.counts[k] = self.counts.get(k, 0) + n

    def install(self):
        if self.installed:
            return
        self.installed = True
        from explorerscript.ssb_converting.decompiler.graph_building import graph_utils as gu
        from explorerscript.ssb_converting.decompiler.graph_building import graph_minimizer as gm

        orig_find = gu.find_first_common_next_vertex_in_edges
        orig_clear = gu.find_first_common_next_vertex_in_edges__clear_cache
        cache = gu.find_first_common_next_vertex_in_edges_cache
        mon = self
        self.orig_find, self.orig_clear = orig_find, orig_clear

        def note_owner(g, at):
            """called before the real function touches the dict of id(g)"""
            with mon.lock:
                w = mon.owner.get(id(g))
                d = cache.get(id(g))
                if w is None:
                    if d is not None:
                        mon.c("dict-of-unknown-owner")
                    mon.owner[id(g)] = weakref.ref(g)
                    return "new", d
                if w() is g:
                    return "same", d
                # the id belonged to another (dead) graph: recycled
                mon.c("recycled-graph-id-seen")
                if d:
                    mon.c("recycled-graph-id-with-stale-entries:" + at)
                mon.owner[id(g)] = weakref.ref(g)
                return "foreign", d

        def clear(g):
            mon.c("clears")
            note_owner(g, "clear")
            return orig_clear(g)

        def find(g, es, *a, **kw):
            es = list(es)
            mon.c("lookups")
            own, d = note_owner(g, "lookup")
            key = ",".join(sorted(str(e.index) for e in es))
            hit = d is not None and key in d
            res = orig_find(g, es, *a, **kw)
            if hit:
                if own == "same":
                    mon.c("hit-same-graph")
                else:
                    mon.c("hit-foreign")
                    # what would have been computed without the inherited entry?
                    try:
                        fresh = gu._find_first_common_next_vertex_in_edges__impl(g, [{e} for e in es], [], *(list(a) + [False, False, None, True][len(a):])[:4])
                    except Exception as e:
                        fresh = ("exc", type(e).__name__)
                    def idx(r):
                        return None if r is None else r if isinstance(r, tuple) else [x.index for x in r]
                    if idx(fresh) != idx(res):
                        mon.events.append({"event": "hit-foreign-differs", "memo": idx(res), "recomputed": idx(fresh), "edges": key})
            else:
                mon.c("miss")
            return res

        gu.find_first_common_next_vertex_in_edges = find
        gu.find_first_common_next_vertex_in_edges__clear_cache = clear
        gm.find_first_common_next_vertex_in_edges = find
        gm.find_first_common_next_vertex_in_edges__clear_cache = clear

        # Fault injection at a hook: what a graph can inherit through a recycled id() - the memo dict of a dead graph whose join
        # searches had failed (entries with value None; entries with edge lists keep their graph alive and cannot be inherited).
        # Waiting for the allocator to recycle an id *and* for the keys to coincide is hopeless; planting the dict right after the
        # graphs of a decompilation are created produces the same state deterministically. It must not change any result.
        orig_init = gm.SsbGraphMinimizer.__init__

        def init(self_, *a, **kw):
            orig_init(self_, *a, **kw)
            if mon.plant:
                with gu.cache_lock:
                    for g in self_._graphs:
                        n = min(len(g.es), 40)
                        cache[id(g)] = {f"{i},{j}": None for i in range(n) for j in range(i + 1, n)}
                        mon.c("stale-memo-dicts-planted")

        gm.SsbGraphMinimizer.__init__ = init

    def drain(self):
        ev, self.events = self.events, []
        return ev

    def scan(self):
        """at a quiescent point: memo dicts that still hold entries although their graph is dead (what a later graph with the
        same id() would inherit), and graphs kept alive by the memo"""
        from explorerscript.ssb_converting.decompiler.graph_building import graph_utils as gu

        with self.lock:
            for i, d in list(gu.find_first_common_next_vertex_in_edges_cache.items()):
                if not d:
                    continue
                w = self.owner.get(i)
                if w is None or w() is None:
                    if i not in self._orphans:
                        self._orphans.add(i)
                        self.c("dicts-with-entries-of-a-dead-graph")
                elif i not in self._alive:
                    self._alive.add(i)
                    self.c("graphs-kept-alive-by-the-memo")


KCACHE = KCache()


class KClock:
    """K-CLOCK: fault injection on the clocks. A result that depends only on the input does not depend on how long the call has
    been running or on when it runs. Every reading of a clock of the `time` module that is made by repository code (one of the four
    innermost frames belongs to the tree under test) is recorded and answered with a value that has jumped ahead by another hour
    (monotonic: the offset only grows). Readings by anything else (the harness, logging, threading) get the real value."""
    NAMES = ("time", "monotonic", "perf_counter", "process_time", "thread_time")

    def __init__(self):
        self.installed = False
        self.reads = 0
        self.sites = {}
        self.offset = 0
        self.lock = threading.Lock()

    def install(self):
        if self.installed:
            return
        import time as _t
        prefix = os.path.join(REPO, "explorerscript")

        def wrap(orig, ns):
            def clock(*a):
                v = orig(*a)
                f = sys._getframe(1)
                for _ in range(4):
                    if f is None:
                        break
                    if f.f_code.co_filename.startswith(prefix):
                        with self.lock:
                            self.reads += 1
                            k = f"{os.path.relpath(f.f_code.co_filename, REPO)}:{f.f_code.co_qualname}"
                            self.sites[k] = self.sites.get(k, 0) + 1
                            self.offset += 3600
                            off = self.offset
                        return v + (off * 10 ** 9 if ns else off)
                    f = f.f_back
                return v
            return clock

        for n in self.NAMES:
            for name, ns in ((n, False), (n + "_ns", True)):
                if hasattr(_t, name):
                    setattr(_t, name, wrap(getattr(_t, name), ns))
        self.installed = True


KCLOCK = KClock()


_PROBE = {"installed": False, "seen": 0}


def install_class_state_probe():
    """invariant at a hook: every time the decompiler writes a statement, the class-level defaults (which all instances would
    share) are still empty - also while a call is in progress, not only after it"""
    if _PROBE["installed"]:
        return
    _PROBE["installed"] = True
    from explorerscript.ssb_converting.ssb_decompiler import ExplorerScriptSsbDecompiler as D

    orig = D.write_stmnt

    def write_stmnt(self, *a, **kw):
        d = D.__dict__
        if d.get("labels_already_printed") or d.get("forever_start_handler_stack"):
            _PROBE["seen"] += 1
        return orig(self, *a, **kw)

    write_stmnt.__wrapped__ = orig
    D.write_stmnt = write_stmnt


def class_level_state_problems():
    """class-level mutable defaults that must never be written through the class (they would be shared by all instances)"""
    from explorerscript.ssb_converting.ssb_decompiler import ExplorerScriptSsbDecompiler as D

    out = []
    for name in ("labels_already_printed", "forever_start_handler_stack"):
        v = D.__dict__.get(name)
        if v:
            out.append((name, repr(v)[:100]))
    if _PROBE["seen"]:
        out.append(("non-empty-while-a-statement-was-written", str(_PROBE["seen"])))
        _PROBE["seen"] = 0
    return out


def churn(rnd):
    """between two calls: collect garbage and allocate / free bursts of igraph graphs so that id()s are recycled"""
    import igraph

    if rnd.random() < 0.5:
        gc.collect()
    if rnd.random() < 0.5:
        gs = []
        for _ in range(rnd.randint(1, 12)):
            g = igraph.Graph(directed=True)
            g.add_vertices(rnd.randint(1, 8))
            gs.append(g)
        rnd.shuffle(gs)
        del gs[: rnd.randint(0, len(gs))]
        del gs


if __name__ == "__main__":
    from vf import env

    env.setup_paths()
    env.quiet()
    env.check_repo_import()
    job = json.loads(sys.stdin.read())
    sys.stdout.write(json.dumps(compute(job), ensure_ascii=True, default=repr))
