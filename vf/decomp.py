"""Shared pipeline for the decompiler properties (C02, C06, C09, C13): G-SSB workloads (compiler-shaped,
re-laid-out, CFG-shaped, special opcodes) and one monitored decompilation with everything the oracles need."""
from __future__ import annotations

import copy
import random

from vf import monitors, norm, t2a
from vf.common import HarnessTimeout, TimeLimit, exps_workload, gsig
from vf.esast import print_program, ref_lts, RefError
from vf.lts import JUMP_IDX, FLOW_END, CTX_OPS, ssb_lts, MalformedSsb, has_silent_cycle, LTS
from vf.ssbgen import random_ssb


# ------------------------------------------------------------------------------------- well-formedness
def well_formed_problem(ops):
    """None if the routine set is well-formed in the sense of C02, else a short reason."""
    try:
        l = ssb_lts(ops)
    except MalformedSsb as e:
        return "malformed:" + str(e)[:40]
    last = -1
    for r in ops:
        for op in r:
            if op.offset <= last:
                return "offsets not increasing"
            last = op.offset
    # no path may run off the end of a routine; no Jump-only cycle (from any op, reachable or not)
    for n, k in l.nodes.items():
        if isinstance(n, tuple) and n[0] == "fall":
            continue
        succ = []
        if k[0] == "tau":
            succ = [k[1]]
        elif k[0] == "ev":
            succ = [k[2]]
        elif k[0] == "test":
            succ = [k[2], k[3]]
        for s in succ:
            if isinstance(s, tuple) and s[0] == "fall":
                return "path runs off the end of a routine"
    for r in ops:
        for op in r:
            if op.op_code.name == "Jump" and l.resolve(op.offset) is None:
                return "jump-only cycle"
    return None


def make_well_formed(routine_ops):
    """Append a Return to routines that could run off their end (what a compiled routine without terminator lacks)."""
    from explorerscript.ssb_converting.ssb_data_types import SsbOperation, SsbOpCode

    ops = copy.deepcopy(routine_ops)
    mx = max([op.offset for r in ops for op in r], default=0)
    # offsets must stay increasing through the file: renumber afterwards
    for r in ops:
        if not r:
            continue
        lastop = r[-1]
        ends = lastop.op_code.name in FLOW_END or lastop.op_code.name == "Jump"
        if ends and len(r) > 1 and r[-2].op_code.name in CTX_OPS and lastop.op_code.name != "Jump":
            ends = False
        if not ends:
            mx += 1
            r.append(SsbOperation(("new", mx), SsbOpCode(-1, "Return"), []))
    # renumber keeping order
    n = 0
    mapping = {}
    for r in ops:
        for op in r:
            mapping[op.offset] = n
            n += 1
    for r in ops:
        for op in r:
            op.offset = mapping[op.offset]
            nm = op.op_code.name
            if nm in JUMP_IDX and len(op.params) > JUMP_IDX[nm] and op.params[JUMP_IDX[nm]] in mapping:
                op.params[JUMP_IDX[nm]] = mapping[op.params[JUMP_IDX[nm]]]
    return ops


def relayout(routine_ops, rnd: random.Random):
    """Same flow graph, other layout: basic blocks of each routine are permuted (entry block stays first), explicit Jumps
    keep the fall-through edges, offsets renumbered increasing, targets preserved."""
    from explorerscript.ssb_converting.ssb_data_types import SsbOperation, SsbOpCode

    ops = copy.deepcopy(routine_ops)
    targets = set()
    for r in ops:
        for op in r:
            nm = op.op_code.name
            if nm in JUMP_IDX and len(op.params) > JUMP_IDX[nm]:
                targets.add(op.params[JUMP_IDX[nm]])
    fresh = max([op.offset for r in ops for op in r], default=0) + 1000
    out = []
    for r in ops:
        if len(r) < 3:
            out.append(r)
            continue
        blocks = [[]]
        for i, op in enumerate(r):
            if op.offset in targets and blocks[-1]:
                blocks.append([])
            blocks[-1].append(op)
            nm = op.op_code.name
            prev_ctx = i > 0 and r[i - 1].op_code.name in CTX_OPS
            if (nm == "Jump" or (nm in FLOW_END and not prev_ctx) or (nm in JUMP_IDX and nm != "Jump")) and i + 1 < len(r):
                blocks.append([])
        blocks = [b for b in blocks if b]
        # successor by fall-through
        fall = {}
        for bi, b in enumerate(blocks):
            lastop = b[-1]
            nm = lastop.op_code.name
            prev_ctx = len(b) > 1 and b[-2].op_code.name in CTX_OPS
            ends = nm == "Jump" or (nm in FLOW_END and not prev_ctx)
            if not ends and bi + 1 < len(blocks):
                fall[bi] = blocks[bi + 1][0].offset
        order = list(range(1, len(blocks)))
        rnd.shuffle(order)
        order = [0] + order
        newr = []
        for pos, bi in enumerate(order):
            newr.extend(blocks[bi])
            if bi in fall:
                nxt = order[pos + 1] if pos + 1 < len(order) else None
                if nxt is None or blocks[nxt][0].offset != fall[bi]:
                    fresh += 1
                    newr.append(SsbOperation(fresh, SsbOpCode(-1, "Jump"), [fall[bi]]))
        out.append(newr)
    res, _ = norm.renumber(out)
    return res


# ------------------------------------------------------------------------------------------- workloads
def handbuilt_specs():
    """Hand-written routine sets in layouts no compiler produces (both arms of an if ending in a jump, a call that falls through
    into a loop head, tails shared between ifs). All of them decompile correctly on the unchanged tree."""
    I = lambda x: ("int", x)
    V = ("const", "$V")

    def rs(*routines):
        return {"routines": [{"kind": "GENERIC", "target": None, "name": None, "ops": list(r)} for r in routines]}

    out = []
    # an endless loop whose last op is a call into another routine and which falls through into the loop head
    out.append(("loop_ends_in_foreign_call", rs(
        [(0, "op_Z", [I(0)]), (1, "Jump", [I(4)]), (2, "op_A", [I(1)]), (3, "Call", [I(7)]), (4, "op_B", [I(2)]), (5, "Jump", [I(2)])],
        [(6, "op_X", [I(1)]), (7, "op_S", [I(9)]), (8, "Return", [])])))
    # the else branch of an if starts at the tail block that both arms of another if jump into
    out.append(("else_starts_at_another_ifs_join", rs(
        [(0, "Branch", [V, I(1), I(11)]), (1, "op_W", [I(0)]), (2, "Branch", [V, I(2), I(6)]), (3, "op_B", [I(2)]), (4, "op_B2", [I(2)]), (5, "Jump", [I(9)]),
         (6, "op_A", [I(1)]), (7, "op_A2", [I(1)]), (8, "Jump", [I(9)]), (9, "op_E", [I(5)]), (10, "End", []),
         (11, "Branch", [V, I(3), I(14)]), (12, "op_Q", [I(3)]), (13, "Jump", [I(3)]), (14, "op_P", [I(4)]), (15, "Jump", [I(3)])])))
    # a loop entered by a jump into its middle; a test inside falls through into the loop start
    W = ("const", "$W")
    out.append(("loop_entered_in_the_middle", rs(
        [(0, "pre", [I(0)]), (1, "Jump", [I(3)]), (2, "Branch", [V, I(4), I(4)]), (3, "s5", [I(5)]), (4, "Branch", [W, I(6), I(2)]), (5, "End", [])])))
    # both arms of an inner if end in a jump to their join, a sibling arm of the enclosing if ends in a jump of its own
    for n_else, n_if in ((4, 1), (2, 2), (1, 3)):
        ops = [(0, "Branch", [V, I(1), None]), (1, "Branch", [V, I(2), None])]
        n = 2
        for k in range(n_else):
            ops.append((n, f"e{k}", [])); n += 1
        j1 = n; ops.append([n, "Jump", [None]]); n += 1
        t = n
        for k in range(n_if):
            ops.append((n, f"i{k}", [])); n += 1
        j2 = n; ops.append([n, "Jump", [None]]); n += 1
        join = n; ops.append((n, "End", [])); n += 1
        p = n
        for k in range(4):
            ops.append((n, f"q{k}", [])); n += 1
        j3 = n; ops.append([n, "Jump", [None]]); n += 1
        ops.append((n, "m", [])); n += 1
        ops.append((n, "End", [])); n += 1
        kk = n; ops.append((n, "k", [])); n += 1
        ops.append((n, "End", [])); n += 1
        fix = {0: p, 1: t}
        res = []
        for o in ops:
            off, name, ps = o
            if name == "Branch":
                ps = [ps[0], ps[1], I(fix[off])]
            elif name == "Jump":
                ps = [I(join if off in (j1, j2) else kk)]
            res.append((off, name, ps))
        out.append((f"both_arms_jump_to_join_{n_else}_{n_if}", rs(res)))
    # a ladder of tests whose targets are consecutive ops of the straight-line code that follows them (the first target is the
    # fall-through of the last test): `if (a) {@l; t0} elseif not (b) {jump @l}` shapes, no compiler lays code out like this
    for k in (2, 3):
        for shift in (0, 1):
            for samevar in (True, False):
                ops = [(i, "Branch", [V if samevar else ("const", f"$V{i}"), I(i + 1), I(k + i + shift)]) for i in range(k)]
                n = k
                for j in range(k + shift):
                    ops.append((n, f"t{j}", [I(j)]))
                    n += 1
                ops.append((n, "End", []))
                out.append((f"test_ladder_{k}_{shift}_{int(samevar)}", rs(ops)))
    return out


def ssb_workload(shard):
    """yields (name, infos, ops, named, meta). kinds: compiled / flat / relaid / cfg / special / handbuilt"""
    rnd = random.Random(shard["seed"])
    kind = shard["kind"]
    if kind == "handbuilt":
        for name, spec in handbuilt_specs():
            infos, ops, named = norm.make_ops(spec)
            yield name, infos, ops, named, {"spec": spec, "kind": kind}
        return
    if kind in ("compiled", "relaid", "flat", "catalogue"):
        src = {"compiled": "random", "relaid": "random", "flat": "flat", "catalogue": "catalogue"}[kind]
        sh = dict(shard, kind=src)
        sh.setdefault("cfg", {}).update({"switch_pairs": shard.get("switch_pairs", "matching")})
        for name, prog in exps_workload(sh):
            text = print_program(prog).text
            try:
                c = norm.compile_exps(text)
            except Exception:
                continue
            ops = make_well_formed(c.routine_ops)
            if kind == "relaid":
                ops = relayout(ops, rnd)
            elif rnd.random() < 0.3:
                ops, _ = norm.renumber(ops, start=1, gap=(lambda: rnd.randint(1, 3)) if rnd.random() < 0.5 else None)
            yield name, c.routine_infos, ops, c.named_coroutines, {"source": text, "prog": prog, "kind": kind}
        return
    if kind == "forced_fallback":
        # random flow graphs over several routines with an op no structuring pass can place (a CaseText outside of a message
        # switch) put behind the first op: the answer is the SsbScript fallback, with jumps between routines in both
        # directions and jumps to the very first op (offset 0)
        from explorerscript.ssb_converting.ssb_data_types import SsbOperation, SsbOpCode, SsbOpParamLanguageString
        for i in range(shard["n"]):
            for _ in range(30):
                spec = random_ssb(rnd, hostile=0.0, well_formed=True, special_p=0.1, max_ops=shard.get("max_ops", 8), typed=True, keyword_names=False)
                infos, ops, named = norm.make_ops(spec)
                if well_formed_problem(ops) is None and any(ops):
                    break
            else:
                continue
            ops, _ = norm.renumber(ops, start=rnd.choice([0, 0, 1]), gap=lambda: 2)
            ri = next(k for k, r in enumerate(ops) if r)
            first = ops[ri][0]
            if first.op_code.name in CTX_OPS:
                continue
            ops[ri].insert(1, SsbOperation(first.offset + 1, SsbOpCode(-1, "CaseText"), [rnd.randint(0, 3), SsbOpParamLanguageString({"english": "t%d" % i})]))
            if well_formed_problem(ops) is not None:
                continue
            yield f"{kind}{i}", infos, ops, named, {"kind": kind}
        return
    for i in range(shard["n"]):
        for _ in range(30):
            spec = random_ssb(rnd, hostile=shard.get("hostile", 0.0), well_formed=True,
                              special_p=0.5 if kind == "special" else 0.12, max_ops=shard.get("max_ops", 10),
                              typed=shard.get("typed", True), keyword_names=shard.get("keyword_names", False))
            infos, ops, named = norm.make_ops(spec)
            if well_formed_problem(ops) is None:
                break
        else:
            continue
        yield f"{kind}{i}", infos, ops, named, {"spec": spec, "kind": kind}


# --------------------------------------------------------------------------------------- one decompilation
class Dec:
    __slots__ = ("exc", "text", "sm", "fallback", "timeout", "steps", "monitor_log", "input_lts", "wf")


def decompile_once(acc, infos, ops, named, which="exps", seconds=20, count_steps=False):
    """One monitored call of the real decompiler on a deep copy of ops."""
    d = Dec()
    d.exc = d.text = d.sm = None
    d.fallback = d.timeout = False
    d.steps = None
    monitors.drain()
    fn = norm.decompile_exps if which == "exps" else norm.decompile_ssbs
    try:
        with TimeLimit(seconds):
            if count_steps:
                with monitors.StepCounter() as sc:
                    try:
                        d.text, d.sm = fn(infos, ops, named)
                    finally:
                        d.steps = sc.n
            else:
                d.text, d.sm = fn(infos, ops, named)
    except HarnessTimeout:
        d.timeout = True
    except RecursionError as e:
        d.exc = ("RecursionError", "", monitors._innermost_repo_frame(e.__traceback__))
    except Exception as e:
        d.exc = (type(e).__name__, str(e)[:200], monitors._innermost_repo_frame(e.__traceback__))
    d.monitor_log = monitors.drain()
    if d.text is not None:
        d.fallback = norm.is_fallback(d.text)
    return d


def dm_tol(a, b):
    """C02 tolerance: a dungeon-mode number 0..3 may come back as the configured constant that stands for it
    (flag_SetDungeonMode value; Case under SwitchDungeonMode is handled by the caller through the same rule)."""
    from vf.env import DM_NAMES

    if a[0] != b[0] or len(a[1]) != len(b[1]):
        return False
    if a[0] not in ("flag_SetDungeonMode", "Case"):
        return False
    for x, y in zip(a[1], b[1]):
        if x == y:
            continue
        for p, q in ((x, y), (y, x)):
            if p[0] == "int" and 0 <= p[1] <= 3 and q == ("const", DM_NAMES[p[1]]):
                break
        else:
            return False
    return True
