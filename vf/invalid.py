"""G-INVALID: valid G-EXPS programs into which exactly one static violation from the C10 list is injected,
degenerate routines, token-level corruptions and token soup (G-TEXT)."""
from __future__ import annotations

import copy
import random

from vf.gen import Gen, Cfg, _u, _c


def _bodies(prog, pred):
    """All statement lists of the routines with their context flags (inloop, incase); pred filters."""
    out = []

    def walk(ss, inloop, incase):
        if pred(inloop, incase):
            out.append(ss)
        for s in ss:
            k = s[0]
            if k == "if":
                for _, _, b in s[1]:
                    walk(b, inloop, incase)
                if s[2] is not None:
                    walk(s[2], inloop, incase)
            elif k == "switch":
                for _, b in s[2]:
                    walk(b, inloop, True)
            elif k == "forever":
                walk(s[1], True, incase)
            elif k == "while":
                walk(s[3], True, incase)
            elif k == "for":
                walk(s[4], True, incase)

    for _, b in prog["routines"]:
        if b is not None:
            walk(b, False, False)
    return out


def _mutable(prog):
    """deep copy with list bodies (so that injection can insert)"""
    def conv(ss):
        out = []
        for s in ss:
            k = s[0]
            if k == "if":
                s = ("if", [(n, c, conv(b)) for n, c, b in s[1]], None if s[2] is None else conv(s[2]))
            elif k == "switch":
                s = ("switch", s[1], [(h, conv(b)) for h, b in s[2]])
            elif k == "forever":
                s = ("forever", conv(s[1]))
            elif k == "while":
                s = ("while", s[1], s[2], conv(s[3]))
            elif k == "for":
                s = ("for", s[1], s[2], s[3], conv(s[4]))
            out.append(s)
        return out

    return {"imports": list(prog.get("imports", [])), "macros": [(m[0], list(m[1]), conv(m[2])) for m in prog.get("macros", [])],
            "routines": [(h, None if b is None else conv(b)) for h, b in prog["routines"]]}


KINDS = [
    "break_outside_case", "continue_outside_loop", "break_loop_outside_loop", "jump_undefined", "call_undefined",
    "switch_ends_empty_case", "two_defaults", "stmt_in_message_switch", "label_in_with", "not_on_plain_bit",
    "unknown_macro", "recursive_macro_direct", "recursive_macro_indirect", "too_few_macro_args", "missing_import",
    "not_on_plain_bit_while", "jump_undefined_in_macro", "alias_in_macro",
    # the context-free violations once more, inside a macro body (called from a routine or never called at all)
    "switch_ends_empty_case@macro", "two_defaults@macro", "stmt_in_message_switch@macro", "label_in_with@macro",
    "not_on_plain_bit@macro", "not_on_plain_bit_while@macro",
]


def inject(prog, kind, rnd: random.Random):
    """Returns a new program with exactly one static violation of the given kind, or None if not applicable."""
    p = _mutable(prog)

    def insert(bodies, stmt):
        if not bodies:
            return False
        b = rnd.choice(bodies)
        b.insert(rnd.randint(0, len(b)), stmt)
        return True

    if kind.endswith("@macro"):
        # let the plain kind put its statement into a scratch routine, then move that body into a macro
        holder = {"imports": [], "macros": [], "routines": [(("def", 0), [_u(778)])]}
        q = inject(holder, kind[:-6], rnd)
        if q is None:
            return None
        name = "holder_m"
        p["macros"].insert(rnd.randint(0, len(p["macros"])), (name, [], q["routines"][0][1]))
        if rnd.random() < 0.5:
            insert(_bodies(p, lambda l, c: True), ("macro", name, []))
        return p
    if kind == "break_outside_case":
        return p if insert(_bodies(p, lambda l, c: not c), ("ctrl", "break")) else None
    if kind == "continue_outside_loop":
        return p if insert(_bodies(p, lambda l, c: not l), ("ctrl", "continue")) else None
    if kind == "break_loop_outside_loop":
        return p if insert(_bodies(p, lambda l, c: not l), ("ctrl", "break_loop")) else None
    if kind == "jump_undefined":
        return p if insert(_bodies(p, lambda l, c: True), ("jump", "undefined_label_xyz")) else None
    if kind == "call_undefined":
        return p if insert(_bodies(p, lambda l, c: True), ("call", "undefined_label_xyz")) else None
    if kind == "switch_ends_empty_case":
        sw = ("switch", ("Switch", (("int", 777),)), [(("case", ("Case", (("int", 1),))), [_u(771), ("ctrl", "break")]),
                                                       (("case", ("Case", (("int", 2),))), [])])
        if rnd.random() < 0.5:
            sw = ("switch", ("Switch", (("int", 777),)), [(("default",), [])])
        return p if insert(_bodies(p, lambda l, c: True), sw) else None
    if kind == "two_defaults":
        sw = ("switch", ("Switch", (("int", 777),)), [(("default",), [_u(771), ("ctrl", "break")]),
                                                       (("case", ("Case", (("int", 2),))), [_u(772)]), (("default",), [_u(773)])])
        return p if insert(_bodies(p, lambda l, c: True), sw) else None
    if kind == "stmt_in_message_switch":
        t = rnd.choice(["message_SwitchTalk ($A) { case 1: op_771(); }",
                        "message_SwitchMonologue ($A) { case 1: 'x' default: op_771(); }",
                        "message_SwitchTalk ($A) { case 1: 'x' case 2: end; }"])
        return p if insert(_bodies(p, lambda l, c: True), ("raw", t)) else None
    if kind == "label_in_with":
        return p if insert(_bodies(p, lambda l, c: True), ("raw", "with (actor 3) { @lbl_in_with; }")) else None
    if kind == "not_on_plain_bit":
        t = rnd.choice(["if (not $A[3]) { op_771(); }", "if ($B == 1 || not $A[3]) { }", "if ($B == 1) { } elseif (not VAR_X[0]) { op_771(); }",
                        "if (not 12[3]) { op_771(); }", "if ($B == 1) { } elseif (not 0x1f[0]) { op_771(); }", "if (not 7[1] || $B == 2) { }"])
        return p if insert(_bodies(p, lambda l, c: True), ("raw", t)) else None
    if kind == "not_on_plain_bit_while":
        t = rnd.choice(["while (not $A[3]) { op_771(); }", "for (op_770(); not $A[3]; op_772();) { }", "while (not 12[3]) { op_771(); }"])
        return p if insert(_bodies(p, lambda l, c: True), ("raw", t)) else None
    if kind == "unknown_macro":
        return p if insert(_bodies(p, lambda l, c: True), ("macro", "no_such_macro", [("int", 1)])) else None
    if kind == "recursive_macro_direct":
        p["macros"].append(("rec_a", ["$x"], [_u(771), ("macro", "rec_a", [("const", "$x")])]))
        if rnd.random() < 0.7:
            insert(_bodies(p, lambda l, c: True), ("macro", "rec_a", [("int", 1)]))
        return p
    if kind == "recursive_macro_indirect":
        ms = [("rec_a", ["$x"], [_u(771), ("macro", "rec_b", [("const", "$x")])]),
              ("rec_b", ["$y"], [("if", [(False, [_c(772)], [("macro", "rec_c", [])])], None)]),
              ("rec_c", [], [("macro", "rec_a", [("int", 2)])])]
        rnd.shuffle(ms)
        p["macros"].extend(ms)
        if rnd.random() < 0.7:
            insert(_bodies(p, lambda l, c: True), ("macro", "rec_b", [("int", 1)]))
        return p
    if kind == "too_few_macro_args":
        # (in a third of the cases the body never mentions the parameter whose argument is missing)
        used = [("const", "$x"), ("const", "$y")] if rnd.random() < 0.67 else [("const", "$x")]
        p["macros"].append(("two_args", ["$x", "$y"], [("op", "op_771", used, None)]))
        bodies = _bodies(p, lambda l, c: True)
        if not bodies:
            return None
        b = rnd.choice(bodies)
        at = rnd.randint(0, len(b))
        b.insert(at, ("macro", "two_args", [("int", 1)]))
        if rnd.random() < 0.5:
            # a complete call of the same macro earlier in the file must not make up for the missing argument
            b.insert(at, ("macro", "two_args", [("int", 5), ("int", 6)]))
        return p
    if kind == "missing_import":
        p["imports"].append(rnd.choice(["./does_not_exist.exps", "../nope/missing.exps", "/no/such/dir/x.exps", "not_in_lookup.exps"]))
        return p
    if kind == "jump_undefined_in_macro":
        p["macros"].append(("bad_jump", [], [_u(771), ("jump", "undefined_label_xyz")]))
        return p if insert(_bodies(p, lambda l, c: True), ("macro", "bad_jump", [])) else None
    if kind == "alias_in_macro":
        return None
    raise ValueError(kind)


DEGENERATE = [
    "", " ", "\n", "// only a comment", "/* unterminated", "//?: a: b", "//?: is-ssb-script: true", "//?: is-ssb-script: true\n",
    "//?: is-ssb-script: 1\ndef 0 { a(); }", "//?:", "//?: x", "  //?: k: v\n//?: k2: v2", "//?: is-ssb-script: false\ndef 0 { a(); }",
    "def 0 { @e; }", "def 0 { @a; @b; }", "def 0 { alias previous; }", "def 1 { a(); }", "def 1 { a(); } def 0 { b(); }",
    "def 0 { a(); } def 0 { b(); }", "//?: is-ssb-script: true\ndef 0 {\n    §a;\n    foo();\n}\ndef 0 {\n    Jump(@a);\n}\n",
    "def 0 { a(); } coro A { b(); } def 1 { c(); jump @x; } def 2 { @x; end; }", "def -1 { a(); }", "def 0 { a(); } def -1 { b(); }", "def 0x2 { a(); }", "def 3 { alias previous; }",
    "def 0 { a(); } def 5 { b(); }", "coro A { a(); } def 0 { b(); }", "def 0 { b(); } coro A { a(); }", "coro A { alias previous; }",
    "def 0 { switch ($A) { } }", "def 0 { switch ($A) { case 1: } }", "def 0 { switch ($A) { default: } }",
    "def 0 { switch ($A) { case 1: case 2: a(); } }", "def 0 { message_SwitchTalk ($A) { } }", "def 0 { forever { } }",
    "def 0 { while ($A == 1) { } }", "def 0 { if ($A == 1) { } }", "def 0 { if ($A == 1) { } else { } }", "def 0 { with (actor 1) { a(); b(); } }",
    "def 0 { with (dog 1) { a(); } }", "def 0 { a<dog 1>(); }", "def 0 { with (actor 1) { a<actor 2>(); } }", "def 0 for dog 3 { a(); }",
    "def 0 for actor 1.5 { a(); }", "def 0 for actor \"x\" { a(); }", "def 0 { switch (scn($A)[2]) { case 1: a(); } }",
    "def 0 { if (scn($A) != [1, 2]) { a(); } }", "def 0 { if (scn($A) & [1, 2]) { a(); } }", "def 0 { $A[1] += value(3); }",
    "def 0 { $A[1] = value(3); }", "def 0 { if (a()) { b(); } }", "def 0 { if (a<actor 1>()) { b(); } }", "def 0 { switch (a<actor 1>()) { case 1: b(); } }",
    "def 0 { a(Position<'x', 1.25, 2>); }", "def 0 { a(Position<'x', 1, 2.51>); }", "def 0 { a(Position<'x', .5, -0.5>); }",
    "def 0 { a(1.); }", "def 0 { a(--1); }", "def 0 { a(0x); }", "def 0 { a(09); }", "def 0 { a(0b102); }", "def 0 { a('unterminated); }",
    "def 0 { a('''unterminated); }", "def 0 { a({}); }", "def 0 { a({english='x' german='y'}); }", "def 0 { a(,); }", "def 0 { a(1,,2); }",
    "macro m() { alias previous; } def 0 { ~m(); }", "macro m() { a(); } macro m() { b(); } def 0 { ~m(); }", "macro m($x, $x) { a($x); } def 0 { ~m(1, 2); }",
    "macro m() { @x; } def 0 { ~m(); }", "macro m() { @x; } def 0 { ~m(); ~m(); jump @x; }", "macro m() { return; } def 0 { ~m(); }",
    "macro m() { jump @outer; } def 0 { @outer; ~m(); }", "macro m() { break; } def 0 { switch ($A) { case 1: ~m(); } }",
    "macro m() { continue; } def 0 { forever { ~m(); } }", "def 0 { ~m(); } macro m() { a(); }", "import 'x.exps' def 0 { a(); }",
    "def 0 { a(); } import './x.exps';", "def 0 { jump @x; @x; @x; a(); }", "def 0 { for (;;) { } }", "def 0 { for (a(); $A == 1; @l;) { } }",
    "def 0 { for (@l; $A == 1; a();) { } }", "def 0 { for (return; $A == 1; end;) { hold; } }", "def 0 { for (jump @x; $A == 1; a();) { @x; } }",
    "def 0 { reset scn(3); reset dungeon_result; adventure_log = $X; adventure_log += 1; }", "def 0 { dungeon_mode(1) += 2; }",
    "def 0 { $A = scn[1]; }", "def 0 { case 1: a(); }", "def 0 { default: a(); }", "def 0 { else { a(); } }", "def 0 { elseif ($A == 1) { } }",
    "def 0 { break_loop; }", "def 0 { forever { switch ($A) { case 1: break; } break; } }", "def 0 { switch ($A) { case 1: forever { break; } } }",
    "def 99 { a(); }", "def 0 { a(); }\x00", "def 0 { a(\"\x00\"); }", "def 0 { a('\\'); }", "def 0 { a('a\\\\'); }", "﻿def 0 { a(); }",
    "def 0 { §l; jump @l; }", "def 0 { @ l; jump @ l; }", "def 0 { jump §l; §l; }", "def 0 for_actor(3) { a(); }", "def 0 for_actor 3 { a(); }",
    "def 0 for_actor(3 { a(); }", "def 0 for actor (3) { a(); }", "def 0 { Return(); a(); }", "def 0 { Jump(); }", "def 0 { Jump(3); }",
    "def 0 { Call(); }", "def 0 { Branch($A, 1); }", "def 0 { End(); a(); }", "def 0 { lives(3); }", "def 0 { lives(3); end; a(); }",
    "def 0 { ES_LABEL(); }", "def 0 { message_SwitchTalk(1); }", "def 0 { CaseText(1, 'x'); }", "def 0 { Switch($A); Case(1); }",
]


def corrupt(text: str, rnd: random.Random) -> str:
    """token / character level corruption of a valid program text"""
    ops = rnd.randint(1, 3)
    t = text
    soup = ["{", "}", "(", ")", ";", ":", ",", "'", '"', "'''", '"""', "@", "§", "~", "$", "<", ">", "=", "==", "||", "not",
            "case", "default", "switch", "if", "else", "elseif", "forever", "while", "for", "with", "actor", "macro", "def", "coro",
            "import", "alias", "previous", "jump", "call", "return", "break", "continue", "break_loop", "value", "scn", "menu",
            "Position", "0x", "1.", ".5", "-", "/*", "*/", "//", "\\", "\n", "\x00", "é", " ", "message_SwitchTalk", "[", "]"]
    for _ in range(ops):
        if not t:
            t = rnd.choice(soup)
            continue
        c = rnd.random()
        i = rnd.randrange(len(t))
        if c < 0.3:
            j = min(len(t), i + rnd.randint(1, 6))
            t = t[:i] + t[j:]
        elif c < 0.7:
            t = t[:i] + rnd.choice(soup) + t[i:]
        elif c < 0.85:
            j = rnd.randrange(len(t))
            a, b = sorted((i, j))
            t = t[:a] + t[b:b + 5] + t[a + 5:b] + t[a:a + 5] + t[b + 5:]
        else:
            t = t[:i] + t[i:i + rnd.randint(1, 20)] + t[i:]
    return t


def soup_text(rnd: random.Random) -> str:
    lex = ["def", "0", "1", "{", "}", "(", ")", ";", "a", "op", "$A", "@", "l", "jump", "call", "if", "==", "not", "||", "else", "elseif",
           "switch", "case", "default", ":", "break", "forever", "while", "for", "continue", "break_loop", "with", "actor", "'s'",
           '"s"', "'''m\nl'''", ",", "<", ">", "Position", "1.5", ".5", "-1", "0x1f", "macro", "~m", "import", "'x.exps'", "coro",
           "alias", "previous", "return", "end", "hold", "value", "scn", "[", "]", "=", "+=", "menu", "menu2", "random", "sector",
           "dungeon_mode", "clear", "reset", "init", "dungeon_result", "adventure_log", "message_SwitchTalk", "debug", "edit",
           "variation", "TRUE", "FALSE", "&<<", "&", "^", "!=", "<=", ">=", "{english='x'}", "§", "//c\n", "/*c*/", "\\\n", "\n", " "]
    return " ".join(rnd.choice(lex) for _ in range(rnd.randint(1, 40)))


def has_macro_call(ss):
    for s in ss:
        k = s[0]
        if k == "macro":
            return True
        if k == "if" and (any(has_macro_call(b) for _, _, b in s[1]) or (s[2] and has_macro_call(s[2]))):
            return True
        if k == "switch" and any(has_macro_call(b) for _, b in s[2]):
            return True
        if k == "forever" and has_macro_call(s[1]):
            return True
        if k == "while" and has_macro_call(s[3]):
            return True
        if k == "for" and has_macro_call(s[4]):
            return True
    return False
