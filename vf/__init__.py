"""Runtime-monitoring framework for ExplorerScript (see /verif/DESIGN.md)."""
