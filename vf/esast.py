"""My own ExplorerScript AST, token printer with recorded positions, layout renderer and the
reference semantics M-REF (written from docs/language_spec.rst; shares no code with the repo).

Parameters:  ("int", n) ("const", name) ("fp", "1.5") ("str", s) ("lang", ((lang, s), ...))
             ("pos", name, x_off, y_off, x, y)
Signatures:  sig = (opcode, (param, ...))
Statements:
  ("op", name, [param], ctx|None)            ctx = (kind, param), kind in actor/object/performer
  ("asg", sig)                               flag_* operation written as an assignment
  ("label", name) ("jump", name) ("call", name)
  ("ctrl", kw)                               return end hold continue break break_loop
  ("with", kind, param, simple_stmt)
  ("if", [(neg, [cond_sig], body)], else_body|None)
  ("switch", hdr_sig, [(("case", sig)|("default",), body)])
  ("msgswitch", opname, param, [(("case", param)|("default",), string_param)])
  ("forever", body) ("while", neg, cond_sig, body) ("for", init_simple, cond_sig, incr_simple, body)
  ("macro", name, [param])
Program: {"imports": [...], "macros": [(name, [vars], body)], "routines": [(hdr, body|None)]}
  hdr = ("def", id) | ("for", id, kind, target_param) | ("coro", name);  body None = alias previous
"""
from __future__ import annotations

import random

from vf.lts import LTS, FLOW_END, CTX_KW

PPL = "$PERFORMANCE_PROGRESS_LIST"
OPS = {0: "FALSE", 1: "TRUE", 2: "==", 3: ">", 4: "<", 5: ">=", 6: "<=", 7: "!=", 8: "&", 9: "^", 10: "&<<"}
AOPS = {0: "=", 1: "-=", 2: "+=", 3: "*=", 4: "/="}
SCN_BRANCH = {2: "BranchScenarioNow", 6: "BranchScenarioNowBefore", 4: "BranchScenarioBefore",
              5: "BranchScenarioNowAfter", 3: "BranchScenarioAfter"}
SCN_BRANCH_INV = {v: k for k, v in SCN_BRANCH.items()}
NEGATABLE = {"BranchDebug": "debug", "BranchEdit": "edit", "BranchVariation": "variation"}
BRANCH_OPS_AS_OPERATION = {"BranchExecuteSub", "BranchSum"}
SWITCH_SPECIAL = {"Switch", "SwitchScenario", "SwitchScenarioLevel", "SwitchRandom", "SwitchDungeonMode",
                  "SwitchSector"}
KEYWORDS = {
    "import", "macro", "if", "elseif", "else", "forever", "with", "switch", "return", "end", "hold", "continue",
    "break", "break_loop", "value", "debug", "edit", "variation", "random", "sector", "dungeon_mode", "menu2",
    "menu", "case", "default", "clear", "reset", "init", "scn", "dungeon_result", "adventure_log",
    "message_SwitchTalk", "message_SwitchMonologue", "while", "not", "jump", "call", "FALSE", "TRUE", "coro", "def",
    "for_actor", "for_object", "for_performer", "alias", "for", "previous", "Position",
}


# ------------------------------------------------------------------------------------------ tokens
class Tok:
    __slots__ = ("text", "pre", "marks", "endmarks")

    def __init__(self, text, pre=" "):
        self.text = text
        self.pre = pre  # pretty separator before this token: "", " " or ("nl", indent)
        self.marks = []  # keys recorded at the start of this token
        self.endmarks = []  # keys recorded at the last character of this token


class Style:
    """Alternative spellings (property C16). Default = canonical spellings."""

    def __init__(self, rnd: random.Random | None = None, p=0.0):
        self.r = rnd
        self.p = p if rnd is not None else 0.0

    def flip(self):
        return self.r is not None and self.r.random() < self.p

    def integer(self, n: int) -> str:
        if not self.flip():
            return str(n)
        sign = "-" if n < 0 else ""
        a = abs(n)
        c = self.r.randint(0, 4)
        if c == 0:
            return f"{sign}0x{a:x}" if self.r.random() < 0.5 else f"{sign}0X{a:X}"
        if c == 1:
            return f"{sign}0o{a:o}"
        if c == 2:
            return f"{sign}0b{a:b}"
        if c == 3 and a == 0:
            return sign + "0" * self.r.randint(1, 3)
        return str(n)

    def decimal(self, v: str) -> str:
        """v is the normal form: [-]W.F ; alternative: redundant leading zeros, or dropped zero whole part"""
        if not self.flip():
            return v
        neg = v.startswith("-")
        body = v[1:] if neg else v
        w, f = body.split(".")
        if w == "0" and self.r.random() < 0.4:
            w = ""
        else:
            w = "0" * self.r.randint(1, 3) + w
        return ("-" if neg else "") + w + "." + f

    def label_char(self) -> str:
        return "§" if self.flip() else "@"

    def legacy_for(self) -> bool:
        return self.flip()

    def trailing_comma(self) -> bool:
        return self.flip()

    def quote(self, default: str) -> str:
        if self.flip():
            return "'" if default == '"' else '"'
        return default

    def multiline(self) -> bool:
        return self.flip()


def string_spellable_single(s: str) -> bool:
    """Can my printer spell the value as a single-line literal that decodes (by the documented rules) to s?"""
    if any(c in s for c in "\r\f"):
        return False
    i = 0
    while i < len(s):
        if s[i] == "\\":
            if i + 1 >= len(s) or s[i + 1] in "n'\"\\":
                return False
            i += 2
        else:
            i += 1
    return True


def spell_single(s: str, q: str) -> str:
    assert string_spellable_single(s), s
    return q + s.replace(q, "\\" + q).replace("\n", "\\n") + q


def string_spellable_multi(s: str, q3: str) -> bool:
    """Multi-line literal: first line verbatim, other lines dedented by their least indentation; no escapes."""
    if q3 in s or s.endswith(q3[0]) or "\\" in s[-1:]:
        return False
    lines = s.split("\n")
    if any(c in s for c in "\r\f\v\x1c\x1d\x1e\x85  "):
        return False
    if len(lines) < 2:
        return False
    if lines[0] == "":
        return False  # an empty first line is dropped by the rules
    rest = lines[1:]
    if rest[-1].strip(" ") == "":
        return False  # a blank last line is dropped by the rules
    least = min(len(l) - len(l.lstrip(" ")) for l in rest)
    return least == 0


def spell_multi(s: str, q3: str, extra_indent: int) -> str:
    assert string_spellable_multi(s, q3)
    lines = s.split("\n")
    pad = " " * extra_indent
    return q3 + lines[0] + "\n" + "\n".join(pad + l for l in lines[1:]) + q3


class Printer:
    """AST -> token list. Marks: ("stmt", id(node)) at the first token of a statement,
    ("hdr", id(node), i) at the first token of the i-th condition / case header / switch header,
    ("pos", n) / ("posend", n) for the n-th Position literal, ("call", id(node)) for macro calls."""

    def __init__(self, style: Style | None = None):
        self.toks: list[Tok] = []
        self.ind = 0
        self.style = style or Style()
        self.npos = 0
        self.posmarks = []  # params in order of appearance
        self._pending = []

    # -- emit helpers
    def t(self, text, pre=" "):
        tok = Tok(text, pre)
        if self._pending:
            tok.marks.extend(self._pending)
            self._pending = []
        self.toks.append(tok)
        return tok

    def nl(self, text):
        return self.t(text, ("nl", self.ind))

    def mark(self, key):
        self._pending.append(key)

    # -- params
    def string_value(self, s, default_q="'"):
        st = self.style
        if st.multiline():
            q3 = st.quote(default_q) * 3
            if string_spellable_multi(s, q3):
                return spell_multi(s, q3, st.r.randint(0, 6))
            q3 = ("'" if q3[0] == '"' else '"') * 3
            if string_spellable_multi(s, q3):
                return spell_multi(s, q3, st.r.randint(0, 6))
        return spell_single(s, st.quote(default_q))

    def param(self, p, pre=" "):
        k = p[0]
        if k == "int":
            self.t(self.style.integer(p[1]), pre)
        elif k == "const":
            self.t(p[1], pre)
        elif k == "fp":
            self.t(self.style.decimal(p[1]), pre)
        elif k == "str":
            self.t(self.string_value(p[1]), pre)
        elif k == "lang":
            self.t("{", pre)
            for i, (l, s) in enumerate(p[1]):
                if i:
                    self.t(",", "")
                self.t(l, " " if i else "")
                self.t("=", "")
                self.t(self.string_value(s, '"'), "")
            if self.style.trailing_comma():
                self.t(",", "")
            self.t("}", "")
        elif k == "pos":
            n = self.npos
            self.npos += 1
            self.posmarks.append(p)
            self.mark(("pos", n))
            self.t("Position", pre)
            self.t("<", "")
            self.t(spell_single(p[1], self.style.quote("'")), "")
            self.t(",", "")
            self.t(self._posarg(p[4], p[2]))
            self.t(",", "")
            self.t(self._posarg(p[5], p[3]))
            tok = self.t(">", "")
            tok.endmarks.append(("posend", n))
        else:
            raise TypeError(p)

    def _posarg(self, v, off):
        st = self.style
        def zeros(text):
            # redundant leading zeros of the whole part of a decimal (02.5, -007.0)
            if st.flip():
                sign, body = ("-", text[1:]) if text.startswith("-") else ("", text)
                return sign + "0" * st.r.randint(1, 2) + body
            return text

        if off:
            s = f"{v}.5"
            if st.flip():
                s += "0" * st.r.randint(1, 2)
            return zeros(s)
        if st.flip():
            return zeros(f"{v}.0")
        return st.integer(v)

    def arglist(self, ps):
        self.t("(", "")
        for i, p in enumerate(ps):
            if i:
                self.t(",", "")
            self.param(p, " " if i else "")
        if ps and self.style.trailing_comma():
            self.t(",", "")
        self.t(")", "")

    def ctx_header(self, kind, p):
        self.t(kind, "")
        self.param(p)

    # -- signatures to source text
    def cond(self, sig, pre=""):
        name, ps = sig
        if name == "Branch":
            self.param(ps[0], pre)
            self.t("==")
            self.param(ps[1])
        elif name == "BranchValue":
            self.param(ps[0], pre)
            self.t(OPS[ps[1][1]])
            self.param(ps[2])
        elif name == "BranchVariable":
            self.param(ps[0], pre)
            self.t(OPS[ps[1][1]])
            self.t("value")
            self.t("(", "")
            self.param(ps[2], "")
            self.t(")", "")
        elif name == "BranchBit":
            self.param(ps[0], pre)
            self.t("[", "")
            self.param(ps[1], "")
            self.t("]", "")
        elif name == "BranchPerformance":
            if ps[1][1] == 0:
                self.t("not", pre)
                pre = " "
            self.t(PPL, pre)
            self.t("[", "")
            self.param(ps[0], "")
            self.t("]", "")
        elif name in SCN_BRANCH_INV:
            self.t("scn", pre)
            self.t("(", "")
            self.param(ps[0], "")
            self.t(")", "")
            self.t(OPS[SCN_BRANCH_INV[name]])
            self.t("[")
            self.param(ps[1], "")
            self.t(",", "")
            self.param(ps[2])
            self.t("]", "")
        elif name in NEGATABLE:
            if ps[0][1] == 0:
                self.t("not", pre)
                pre = " "
            self.t(NEGATABLE[name], pre)
        else:
            self.t(name, pre)
            self.arglist(ps)

    def switch_header(self, sig):
        name, ps = sig
        if name == "Switch":
            self.param(ps[0], "")
        elif name in ("SwitchScenario", "SwitchScenarioLevel"):
            self.t("scn", "")
            self.t("(", "")
            self.param(ps[0], "")
            self.t(")", "")
            self.t("[", "")
            self.t(self.style.integer(0 if name == "SwitchScenario" else 1), "")
            self.t("]", "")
        elif name == "SwitchRandom":
            self.t("random", "")
            self.t("(", "")
            self.param(ps[0], "")
            self.t(")", "")
        elif name == "SwitchDungeonMode":
            self.t("dungeon_mode", "")
            self.t("(", "")
            self.param(ps[0], "")
            self.t(")", "")
        elif name == "SwitchSector":
            self.t("sector", "")
            self.t("(", "")
            self.t(")", "")
        else:
            self.t(name, "")
            self.arglist(ps)

    def case_header(self, sig):
        name, ps = sig
        if name == "Case":
            self.param(ps[0])
        elif name in ("CaseValue", "CaseScenario"):
            self.t(OPS[ps[0][1]])
            self.param(ps[1])
        elif name == "CaseVariable":
            self.t(OPS[ps[0][1]])
            self.t("value")
            self.t("(", "")
            self.param(ps[1], "")
            self.t(")", "")
        elif name == "CaseMenu":
            self.t("menu")
            self.t("(", "")
            self.param(ps[0], "")
            self.t(")", "")
        elif name == "CaseMenu2":
            self.t("menu2")
            self.t("(", "")
            self.param(ps[0], "")
            self.t(")", "")
        else:
            raise TypeError(sig)

    def assignment(self, sig, pre):
        name, ps = sig
        if name == "flag_Set":
            self.param(ps[0], pre)
            self.t("=")
            self.param(ps[1])
        elif name == "flag_CalcValue":
            self.param(ps[0], pre)
            self.t(AOPS[ps[1][1]])
            self.param(ps[2])
        elif name == "flag_CalcVariable":
            self.param(ps[0], pre)
            self.t(AOPS[ps[1][1]])
            self.t("value")
            self.t("(", "")
            self.param(ps[2], "")
            self.t(")", "")
        elif name == "flag_CalcBit":
            self.param(ps[0], pre)
            self.t("[", "")
            self.param(ps[1], "")
            self.t("]", "")
            self.t("=")
            self.param(ps[2])
        elif name == "flag_SetPerformance":
            self.t(PPL, pre)
            self.t("[", "")
            self.param(ps[0], "")
            self.t("]", "")
            self.t("=")
            self.param(ps[1])
        elif name == "flag_SetScenario":
            self.param(ps[0], pre)
            self.t("=")
            self.t("scn")
            self.t("[", "")
            self.param(ps[1], "")
            self.t(",", "")
            self.param(ps[2])
            self.t("]", "")
        elif name == "flag_Clear":
            self.t("clear", pre)
            self.param(ps[0])
        elif name == "flag_Initial":
            self.t("init", pre)
            self.param(ps[0])
        elif name == "flag_ResetScenario":
            self.t("reset", pre)
            self.t("scn")
            self.t("(", "")
            self.param(ps[0], "")
            self.t(")", "")
        elif name == "flag_ResetDungeonResult":
            self.t("reset", pre)
            self.t("dungeon_result")
        elif name == "flag_SetAdventureLog":
            self.t("adventure_log", pre)
            self.t("=")
            self.param(ps[0])
        elif name == "flag_SetDungeonMode":
            self.t("dungeon_mode", pre)
            self.t("(", "")
            self.param(ps[0], "")
            self.t(")", "")
            self.t("=")
            self.param(ps[1])
        else:
            raise TypeError(sig)

    # -- statements
    def simple(self, s, pre):
        """simple statement including its ';'"""
        k = s[0]
        self.mark(("stmt", id(s)))
        if k == "op":
            self.t(s[1], pre)
            if s[3]:
                self.t("<", "")
                self.ctx_header(s[3][0], s[3][1])
                self.t(">", "")
            self.arglist(s[2])
        elif k == "asg":
            self.assignment(s[1], pre)
        elif k == "label":
            self.t(self.style.label_char(), pre)
            self.t(s[1], "")
        elif k == "jump":
            self.t("jump", pre)
            self.t("@")
            self.t(s[1], "")
        elif k == "call":
            self.t("call", pre)
            self.t("@")
            self.t(s[1], "")
        elif k == "ctrl":
            self.t(s[1], pre)
        else:
            raise TypeError(s)
        self.t(";", "")

    def block(self, ss):
        self.t("{")
        self.ind += 1
        self.stmts(ss)
        self.ind -= 1
        self.nl("}")

    def stmts(self, ss):
        for s in ss:
            self.stmt(s)

    def if_header(self, node, idx, neg, conds):
        if neg:
            self.t("not")
        self.t("(")
        for i, c in enumerate(conds):
            if i:
                self.t("||")
            self.mark(("hdr", id(node), idx, i))
            self.cond(c, " " if i else "")
        self.t(")", "")

    def stmt(self, s):
        k = s[0]
        pre = ("nl", self.ind)
        if k in ("op", "asg", "label", "jump", "call", "ctrl"):
            self.simple(s, pre)
        elif k == "with":
            self.mark(("stmt", id(s)))
            self.t("with", pre)
            self.t("(")
            self.ctx_header(s[1], s[2])
            self.t(")", "")
            self.t("{")
            self.ind += 1
            self.simple(s[3], ("nl", self.ind))
            self.ind -= 1
            self.nl("}")
        elif k == "if":
            self.mark(("stmt", id(s)))
            for bi, (neg, conds, body) in enumerate(s[1]):
                if bi == 0:
                    self.t("if", pre)
                else:
                    self.mark(("kw", id(s), "elseif", bi))
                    self.t("elseif")
                self.if_header(s, bi, neg, conds)
                self.block(body)
            if s[2] is not None:
                self.mark(("kw", id(s), "else"))
                self.t("else")
                self.block(s[2])
        elif k == "switch":
            self.mark(("stmt", id(s)))
            self.t("switch", pre)
            self.t("(")
            self.mark(("hdr", id(s), -1, 0))
            self.switch_header(s[1])
            self.t(")", "")
            self.t("{")
            self.ind += 1
            for ci, (h, body) in enumerate(s[2]):
                self.mark(("hdr", id(s), ci, 0))
                if h[0] == "default":
                    self.nl("default")
                else:
                    self.nl("case")
                    self.mark(("hdrx", id(s), ci))
                    self.case_header(h[1])
                self.t(":", "")
                self.ind += 1
                self.stmts(body)
                self.ind -= 1
            self.ind -= 1
            self.nl("}")
        elif k == "msgswitch":
            self.mark(("stmt", id(s)))
            self.t(s[1], pre)
            self.t("(")
            self.param(s[2], "")
            self.t(")", "")
            self.t("{")
            self.ind += 1
            for ci, (h, sp) in enumerate(s[3]):
                self.mark(("hdr", id(s), ci, 0))
                if h[0] == "default":
                    self.nl("default")
                else:
                    self.nl("case")
                    self.param(h[1])
                self.t(":", "")
                self.ind += 1
                self.param(sp, ("nl", self.ind))
                self.ind -= 1
            self.ind -= 1
            self.nl("}")
        elif k == "forever":
            self.mark(("stmt", id(s)))
            self.t("forever", pre)
            self.block(s[1])
        elif k == "while":
            self.mark(("stmt", id(s)))
            self.t("while", pre)
            if s[1]:
                self.t("not")
            self.t("(")
            self.mark(("hdr", id(s), 0, 0))
            self.cond(s[2], "")
            self.t(")", "")
            self.block(s[3])
        elif k == "for":
            self.mark(("stmt", id(s)))
            self.t("for", pre)
            self.t("(")
            self.simple(s[1], "")
            self.mark(("hdr", id(s), 0, 0))
            self.cond(s[2], " ")
            self.t(";", "")
            self.simple(s[3], " ")
            self.t(")", "")
            self.block(s[4])
        elif k == "macro":
            self.mark(("stmt", id(s)))
            self.t("~" + s[1], pre)
            self.arglist(s[2])
            self.t(";", "")
        elif k == "raw":
            # verbatim text (only used to inject statically invalid constructs, G-INVALID)
            self.t(s[1], pre)
        else:
            raise TypeError(s)

    def routine_header(self, hdr):
        if hdr[0] == "def":
            self.t("def", ("nl", 0))
            self.t(self.style.integer(hdr[1]))
        elif hdr[0] == "coro":
            self.t("coro", ("nl", 0))
            self.t(hdr[1])
        else:
            self.t("def", ("nl", 0))
            self.t(self.style.integer(hdr[1]))
            if self.style.legacy_for():
                self.t("for_" + hdr[2])
                self.t("(", "")
                self.param(hdr[3], "")
                self.t(")", "")
            else:
                self.t("for")
                self.t(hdr[2])
                self.param(hdr[3])

    def macrodef(self, m):
        self.mark(("macrodef", m[0]))
        self.t("macro", ("nl", 0))
        self.t(m[0])
        self.t("(", "")
        for i, v in enumerate(m[1]):
            if i:
                self.t(",", "")
            self.t(v, " " if i else "")
        self.t(")", "")
        self.block(m[2])

    def routinedef(self, ri, hdr, body):
        self.mark(("routine", ri))
        self.routine_header(hdr)
        if body is None:
            self.t("{")
            self.ind += 1
            self.nl("alias")
            self.t("previous")
            self.t(";", "")
            self.ind -= 1
            self.nl("}")
        else:
            self.block(body)

    def program(self, prog):
        for imp in prog.get("imports", []):
            self.t("import", ("nl", 0))
            self.t(spell_single(imp, '"'))
            self.t(";", "")
        # definition order: macros first unless the program says otherwise (prog["order"]: list of ("m", i) / ("r", i))
        default = [("m", i) for i in range(len(prog.get("macros", [])))] + [("r", i) for i in range(len(prog["routines"]))]
        order = [tuple(x) for x in prog.get("order") or default]
        if sorted(order) != sorted(default):
            order = default  # (a minimiser or an injection changed the definitions: the recorded order no longer applies)
        for what, idx in order:
            if what == "m":
                self.macrodef(prog["macros"][idx])
            else:
                self.routinedef(idx, *prog["routines"][idx])
        return self.toks


WORD = set("abcdefghijklmnopqrstuvwxyzABCDEFGHIJKLMNOPQRSTUVWXYZ0123456789_$~.")
OPCH = set("<>=!&|/*+-^'\"\\")


def needs_sep(a: str, b: str) -> bool:
    x, y = a[-1], b[0]
    if x in WORD and y in WORD:
        return True
    if x in OPCH and y in OPCH:
        return True
    if x in WORD and y == "-":
        return False
    return False


class Rendered:
    def __init__(self, text, pos, endpos, posall=None):
        self.text = text
        self.pos = pos  # mark key -> (line, col) zero based (last occurrence)
        self.endpos = endpos
        # mark key -> set of positions: the same statement object can be printed more than once (constant tuples are shared)
        self.posall = posall or {k: {v} for k, v in pos.items()}


def render(toks, layout: random.Random | None = None, comment_p=0.15) -> Rendered:
    """Pretty rendering (layout None) or random layout: every gap is filled by random blanks, newlines,
    line joinings and comments; tokens are never glued where that would change the token sequence."""
    out = []
    line = 0
    col = 0
    pos = {}
    posall = {}
    endpos = {}
    prev = None

    def put(s):
        nonlocal line, col
        out.append(s)
        n = s.count("\n")
        if n:
            line += n
            col = len(s) - s.rfind("\n") - 1
        else:
            col += len(s)

    dense = layout == "dense"  # the whole program on one line, one blank where tokens would glue
    for ti, tok in enumerate(toks):
        if dense:
            sep = " " if prev is not None and needs_sep(prev, tok.text) else ""
        elif layout is None:
            if isinstance(tok.pre, tuple):
                sep = ("\n" if ti else "") + "    " * tok.pre[1]
            else:
                sep = tok.pre
            if prev is not None and sep == "" and needs_sep(prev, tok.text):
                sep = " "
        else:
            sep = _random_sep(layout, comment_p, first=(ti == 0))
            if prev is not None and needs_sep(prev, tok.text) and sep == "":
                sep = " "
        put(sep)
        for m in tok.marks:
            pos[m] = (line, col)
            posall.setdefault(m, set()).add((line, col))
        put(tok.text)
        for m in tok.endmarks:
            # position of the last character of the token
            endpos[m] = (line, col - 1)
        prev = tok.text
    if layout is None or dense:
        put("\n")
    else:
        tail = _random_sep(layout, comment_p, first=False)
        if layout.random() < 0.1:
            tail += "/* unterminated"
        put(tail)
    return Rendered("".join(out), pos, endpos, posall)


_BLANKS = ["", "", " ", " ", "  ", "\t", "\n", "\n  ", " \n", "\r\n", "\\\n", " \\ \n "]


def _random_sep(r: random.Random, comment_p, first):
    parts = []
    for _ in range(r.choice([1, 1, 1, 2, 3])):
        if r.random() < comment_p:
            if r.random() < 0.5:
                parts.append("/*" + r.choice(["", " c ", "*", " // ", "\n", " ' \" ", "/*", " jump @x; "]) + "*/")
            else:
                c = r.choice(["", " c", " ' \"", " /* ", "*/", " end;"])
                if first and not parts and c.startswith("?:"):
                    c = " " + c
                parts.append("//" + c + "\n")
        else:
            parts.append(r.choice(_BLANKS))
    s = "".join(parts)
    if first and s.lstrip().startswith("//?:"):
        s = " \n" + s
    return s


def print_program(prog, style: Style | None = None, layout: random.Random | None = None) -> Rendered:
    p = Printer(style)
    toks = p.program(prog)
    r = render(toks, layout)
    r.posmarks = p.posmarks
    return r


# --------------------------------------------------------------------------- reference semantics
class RefError(Exception):
    """The AST is not a valid program for the reference semantics (undefined label, ...)."""


class RefBuilder:
    """M-REF: small-step reference semantics as a deterministic LTS.
    macros: name -> (name, vars, body, file) ; node meta records source statement and macro stack."""

    def __init__(self, macros=None):
        self.l = LTS()
        self.n = 0
        self.macros = macros or {}

    def new(self, node=None, meta=None):
        self.n += 1
        nid = ("r", self.n)
        if node is not None:
            self.l.nodes[nid] = node
        if meta is not None:
            self.l.meta[nid] = meta
        return nid

    @staticmethod
    def sub(p, env):
        if p[0] == "const" and p[1] in env["subst"]:
            return env["subst"][p[1]]
        return p

    def sig(self, sig, env):
        return (sig[0], tuple(self.sub(p, env) for p in sig[1]))

    def meta(self, env, src, part=None):
        return {"src": id(src), "part": part, "stack": env.get("stack", ())}

    def prescan(self, stmts, labels):
        for s in stmts:
            k = s[0]
            if k == "label":
                if s[1] in labels and labels[s[1]][1]:
                    raise RefError(f"duplicate label {s[1]}")
                labels[s[1]] = (labels[s[1]][0] if s[1] in labels else self.new(), True)
            elif k in ("jump", "call"):
                if s[1] not in labels:
                    labels[s[1]] = (self.new(), False)
            elif k == "if":
                for _, _, b in s[1]:
                    self.prescan(b, labels)
                if s[2]:
                    self.prescan(s[2], labels)
            elif k == "switch":
                for _, b in s[2]:
                    self.prescan(b, labels)
            elif k == "forever":
                self.prescan(s[1], labels)
            elif k == "while":
                self.prescan(s[3], labels)
            elif k == "for":
                self.prescan([s[1], s[3]], labels)
                self.prescan(s[4], labels)
            elif k == "with":
                self.prescan([s[3]], labels)

    def blist(self, stmts, k, env):
        for s in reversed(stmts):
            k = self.bstmt(s, k, env)
        return k

    def opnode(self, sig, k, env, src, under_ctx=False, part=None):
        m = self.meta(env, src, part)
        if sig[0] == "Return" and env.get("macro_end") is not None:
            # `return` (or an operation spelled Return) inside a macro leaves the macro only
            return self.new(("tau", env["macro_end"]), m)
        if sig[0] in FLOW_END and not under_ctx:
            if sig[0] == "Return":
                return self.new(("stop",), m)
            return self.new(("stopev", sig), m)
        if sig[0] == "Jump":
            raise RefError("explicit Jump operation")
        return self.new(("ev", sig, k), m)

    def label(self, name, env):
        if name not in env["labels"] or not env["labels"][name][1]:
            raise RefError(f"undefined label {name}")
        return env["labels"][name][0]

    def simple(self, s, k, env, under_ctx=False):
        t = s[0]
        if t == "op":
            n = self.opnode(self.sig((s[1], tuple(s[2])), env), k, env, s, under_ctx or bool(s[3]))
            if s[3]:
                n = self.new(("ev", self.sig((CTX_KW[s[3][0]], (s[3][1],)), env), n), self.meta(env, s, "ctx"))
            return n
        if t == "asg":
            return self.opnode(self.sig(s[1], env), k, env, s, under_ctx)
        if t == "label":
            nid = env["labels"][s[1]][0]
            self.l.nodes[nid] = ("tau", k)
            return nid
        if t == "jump":
            return self.new(("tau", self.label(s[1], env)), self.meta(env, s))
        if t == "call":
            return self.new(("test", ("Call", ()), self.label(s[1], env), k), self.meta(env, s))
        if t == "ctrl":
            c = s[1]
            m = self.meta(env, s)
            if c == "return":
                return self.opnode(("Return", ()), k, env, s, under_ctx)
            if c == "end":
                return self.opnode(("End", ()), k, env, s, under_ctx)
            if c == "hold":
                return self.opnode(("Hold", ()), k, env, s, under_ctx)
            key = {"continue": "cont", "break_loop": "brk", "break": "cbrk"}[c]
            if env.get(key) is None:
                raise RefError(f"{c} outside of its construct")
            return self.new(("tau", env[key]), m)
        raise TypeError(s)

    def tests(self, node, bi, neg, conds, block_entry, otherwise, env):
        """if-header: conditions tested left to right; `not` inverts the whole header."""
        if not neg:
            fail = otherwise
            for ci, c in reversed(list(enumerate(conds))):
                fail = self.new(("test", self.sig(c, env), block_entry, fail), self.meta(env, node, ("hdr", bi, ci)))
            return fail
        succ = block_entry
        for ci, c in reversed(list(enumerate(conds))):
            succ = self.new(("test", self.sig(c, env), otherwise, succ), self.meta(env, node, ("hdr", bi, ci)))
        return succ

    def bstmt(self, s, k, env):
        t = s[0]
        if t in ("op", "asg", "label", "jump", "call", "ctrl"):
            return self.simple(s, k, env)
        if t == "with":
            inner = self.simple(s[3], k, env, under_ctx=True)
            return self.new(("ev", self.sig((CTX_KW[s[1]], (s[2],)), env), inner), self.meta(env, s, "ctx"))
        if t == "if":
            nxt = self.blist(s[2], k, env) if s[2] is not None else k
            for bi, (neg, conds, body) in reversed(list(enumerate(s[1]))):
                be = self.blist(body, k, env)
                nxt = self.tests(s, bi, neg, conds, be, nxt, env)
            return nxt
        if t == "switch":
            if s[2] and not s[2][-1][1]:
                raise RefError("switch ends in an empty case")
            env2 = dict(env, cbrk=k)
            nb = k
            entries = []
            for h, body in reversed(s[2]):
                nb = self.blist(body, nb, env2)
                entries.append(nb)
            entries.reverse()
            fail = k
            ndef = 0
            for (h, _), e in zip(s[2], entries):
                if h[0] == "default":
                    fail = e
                    ndef += 1
            if ndef > 1:
                raise RefError("two defaults")
            scn = s[1][0] == "SwitchScenario"
            for ci, ((h, _), e) in reversed(list(enumerate(zip(s[2], entries)))):
                if h[0] == "case":
                    sg = self.sig(h[1], env)
                    if scn and sg[0] == "CaseValue":
                        sg = ("CaseScenario", sg[1])
                    fail = self.new(("test", sg, e, fail), self.meta(env, s, ("hdr", ci, 0)))
            return self.new(("ev", self.sig(s[1], env), fail), self.meta(env, s, ("hdr", -1, 0)))
        if t == "msgswitch":
            n = k
            for ci, (h, sp) in reversed(list(enumerate(s[3]))):
                if h[0] == "default":
                    n = self.new(("ev", ("DefaultText", (self.sub(sp, env),)), n), self.meta(env, s, ("hdr", ci, 0)))
                else:
                    n = self.new(("ev", ("CaseText", (self.sub(h[1], env), self.sub(sp, env))), n),
                                 self.meta(env, s, ("hdr", ci, 0)))
            return self.new(("ev", (s[1], (self.sub(s[2], env),)), n), self.meta(env, s))
        if t == "forever":
            head = self.new()
            be = self.blist(s[1], head, dict(env, cont=head, brk=k, cbrk=None))
            self.l.nodes[head] = ("tau", be)
            return head
        if t == "while":
            head = self.new()
            be = self.blist(s[3], head, dict(env, cont=head, brk=k, cbrk=None))
            sg = self.sig(s[2], env)
            self.l.nodes[head] = ("test", sg, k, be) if s[1] else ("test", sg, be, k)
            self.l.meta[head] = self.meta(env, s, ("hdr", 0, 0))
            return head
        if t == "for":
            head = self.new()
            incr_k = self.new()
            be = self.blist(s[4], incr_k, dict(env, cont=incr_k, brk=k, cbrk=None))
            self.l.nodes[incr_k] = ("tau", self.simple(s[3], head, env))
            self.l.nodes[head] = ("test", self.sig(s[2], env), be, k)
            self.l.meta[head] = self.meta(env, s, ("hdr", 0, 0))
            return self.simple(s[1], head, env)
        if t == "macro":
            if s[1] not in self.macros:
                raise RefError(f"unknown macro {s[1]}")
            m = self.macros[s[1]]
            name, vars_, body = m[0], m[1], m[2]
            if name in env.get("active", ()):
                raise RefError("recursive macro")
            if len(s[2]) < len(vars_):
                raise RefError("too few macro arguments")
            args = [self.sub(a, env) for a in s[2]]
            labels = {}
            self.prescan(body, labels)
            env2 = {
                "labels": labels, "subst": dict(zip(vars_, args)), "macro_end": k,
                "active": env.get("active", ()) + (name,),
                "stack": env.get("stack", ()) + ((name, id(s)),),
            }
            return self.blist(body, k, env2)
        raise TypeError(s)


def ref_lts(prog, macros=None) -> LTS:
    """Reference LTS of a program. macros: extra macros (from imported files) name -> tuple."""
    allm = dict(macros or {})
    for m in prog.get("macros", []):
        allm[m[0]] = m
    rb = RefBuilder(allm)
    labels = {}
    for hdr, body in prog["routines"]:
        if body:
            rb.prescan(body, labels)
    n = 0
    slots = {}
    rid = -1
    for hdr, body in prog["routines"]:
        rid = rid + 1 if hdr[0] == "coro" else hdr[1]
        end = rb.new(("stop",))
        if body is None:
            slots[rid] = None
        else:
            slots[rid] = rb.blist(body, end, {"labels": labels, "subst": {}, "macro_end": None})
        n = max(n, rid + 1)
    for name, (nid, defined) in labels.items():
        if not defined:
            raise RefError(f"undefined label {name}")
    rb.l.starts = [slots.get(i) for i in range(n)]
    return rb.l


def routine_table(prog):
    """Expected (kind, target, coroutine name) per routine id."""
    out = {}
    rid = -1
    for hdr, body in prog["routines"]:
        if hdr[0] == "coro":
            rid += 1
            out[rid] = ("COROUTINE", None, hdr[1])
        elif hdr[0] == "def":
            rid = hdr[1]
            out[rid] = ("GENERIC", None, None)
        else:
            rid = hdr[1]
            out[rid] = (hdr[2].upper(), hdr[3], None)
    return out
