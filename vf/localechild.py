"""Child interpreter of C16's environment clause: compiles main files (with their imports) under whatever locale / default
encoding the parent chose for this process and dumps the recorded results as ASCII JSON.
usage: python -m vf.localechild JOBS.json OUT.json   (jobs: [{"id", "main", "lookup"}])"""
import json
import locale
import sys


def main():
    from vf import env  # noqa: F401  (puts the repository under test on the path)
    from vf import norm
    from vf.props.c16 import result_key
    jobs = json.load(open(sys.argv[1], encoding="utf-8"))
    out = {"encoding": locale.getpreferredencoding(False), "utf8_mode": sys.flags.utf8_mode, "results": {}}
    for j in jobs:
        try:
            with open(j["main"], encoding="utf-8") as f:
                text = f.read()
            c = norm.compile_exps(text, j["main"], j["lookup"])
            out["results"][j["id"]] = {"ok": True, "key": json.loads(json.dumps(result_key(c), default=repr))}
        except Exception as e:
            out["results"][j["id"]] = {"ok": False, "exc": type(e).__name__, "msg": str(e)[:200]}
    with open(sys.argv[2], "w", encoding="ascii") as f:
        json.dump(out, f, ensure_ascii=True)


if __name__ == "__main__":
    main()
