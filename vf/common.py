"""Helpers shared by the property modules."""
from __future__ import annotations

import random
import re

from vf.lts import ssb_lts, equiv, has_silent_cycle, MalformedSsb, count_paths, random_walk, replay_walk
from vf.esast import ref_lts, RefError, routine_table


def tup(x):
    """JSON round trip of my AST: lists back to tuples (recursively)."""
    if isinstance(x, list):
        return tuple(tup(y) for y in x)
    if isinstance(x, dict):
        return {k: tup(v) for k, v in x.items()}
    return x


def prog_from_json(p):
    return {
        "imports": list(p.get("imports", [])),
        "macros": [tup(m) for m in p.get("macros", [])],
        "routines": [(tup(h), None if b is None else tup(b)) for h, b in p["routines"]],
        **({"order": [tuple(x) for x in p["order"]]} if p.get("order") else {}),
    }


_NUM = re.compile(r"-?\d+")


def gsig(*parts):
    """Mechanism signature: unique literals are replaced so that the same mechanism gives the same string."""
    s = "|".join(str(p) for p in parts)
    return _NUM.sub("N", s)[:300]


def shard_seeds(seed, n, salt):
    r = random.Random(f"{salt}:{seed}")
    return [r.randrange(1 << 40) for _ in range(n)]


def desc_kind(d):
    if isinstance(d, str):
        return d
    return d[0] + (":" + d[1] if len(d) > 1 else "")


def witness_sig(w):
    """(kind, path, a, b) -> short mechanism signature"""
    kind, path, a, b = w
    tail = [re.sub(r"_\d+", "", p) for p in path[-2:]]
    return gsig(kind, ">".join(tail), desc_kind(a), "vs", desc_kind(b))


def compare_lts(acc, ref, got, what, tol=None, walks=2, rnd=None):
    """M-EQ over all routines. Returns list of (routine, sig, witness) mismatches. Updates counters."""
    out = []
    if len(ref.starts) != len(got.starts):
        out.append((-1, gsig(what, "routine-count"), {"expected": len(ref.starts), "got": len(got.starts)}))
        return out
    for ri, (a, b) in enumerate(zip(ref.starts, got.starts)):
        if a is None or b is None:
            if (a is None) != (b is None):
                out.append((ri, gsig(what, "alias-mismatch"), {"expected_empty": a is None, "got_empty": b is None}))
            continue
        if has_silent_cycle(ref, a):
            acc.count("routines_skipped_op_free_cycle")
            continue
        e = equiv(ref, a, got, b, tol=tol)
        acc.count("lts_pairs", e.pairs)
        acc.count("routines_compared")
        if e.limit_hit:
            acc.inconc("pair-limit", {"routine": ri})
            continue
        if e.witness is not None:
            out.append((ri, gsig(what, witness_sig(e.witness)),
                        {"kind": e.witness[0], "path": list(e.witness[1])[-12:], "spec": e.witness[2], "impl": e.witness[3]}))
            continue
        if rnd is not None:
            for _ in range(walks):
                tr, sched = random_walk(got, b, rnd)
                tr2 = replay_walk(ref, a, sched, max_steps=400)
                acc.count("walks")
                m = min(len(tr), len(tr2))
                same = all(x == y or (tol and x[0] == y[0] and len(x) > 1 and tol(x[1], y[1]) and x[2:] == y[2:])
                           for x, y in zip(tr[:m], tr2[:m]))
                if not same:
                    out.append((ri, gsig(what, "walk-disagrees-with-product"), {"impl": tr[:20], "spec": tr2[:20]}))
                    break
    return out


def exps_workload(shard):
    """(name, program) stream for shards of kind catalogue / random / flat (G-EXPS)."""
    from vf.gen import Gen, Cfg, shape_catalogue, flat_program

    rnd = random.Random(shard["seed"])
    if shard["kind"] == "catalogue":
        yield from shape_catalogue()
    elif shard["kind"] == "flat":
        for i in range(shard["n"]):
            yield f"flat{i}", flat_program(random.Random(rnd.randrange(1 << 40)))
    else:
        for i in range(shard["n"]):
            cfg = Cfg(depth=shard.get("depth", 2), **shard.get("cfg", {}))
            g = Gen(random.Random(rnd.randrange(1 << 40)), cfg)
            nm = 0
            if shard.get("macros", True) and g.r.random() < shard.get("macro_share", 0.25):
                nm = g.r.randint(1, 4)
            yield f"random{i}", g.program(nmacros=nm)


def std_shards(pid, tier, seed, n_quick, n_thorough, nshards=15, catalogue=True, extra=None):
    out = [{"kind": "catalogue", "seed": seed}] if catalogue else []
    n = n_quick if tier == "quick" else n_thorough
    for i, s in enumerate(shard_seeds(seed, nshards, pid)):
        depth = 2 if tier == "quick" else (2 + i % 3)
        sh = {"kind": "random", "seed": s, "n": n, "depth": depth}
        if extra:
            sh.update(extra)
        out.append(sh)
    return out


def try_compile(text, acc, lookup=None, path=None):
    """Compile with the real compiler; documented rejections are counted, returns compiler or None."""
    from explorerscript.error import ParseError, SsbCompilerError
    from vf import norm

    try:
        if path is not None:
            return norm.compile_exps(text, path, lookup)
        return norm.compile_exps(text, lookup=lookup)
    except (ParseError, SsbCompilerError, ValueError) as e:
        acc.count("rejected:" + type(e).__name__)
        if len(acc.sets.get("rejected_messages", ())) < 12:
            acc.add_to_set("rejected_messages", gsig(type(e).__name__, str(e)[:60]))
        return None
    except Exception as e:
        acc.count("compile_crash:" + type(e).__name__)
        return None


class HarnessTimeout(BaseException):
    """Raised by TimeLimit inside a monitored call (BaseException: not swallowed by `except Exception`)."""


class TimeLimit:
    """Wall-clock watchdog around one call of the code under observation (main thread only). Its firing is
    *inconclusive* for every property except where a logical step bound decides (C06)."""

    def __init__(self, seconds):
        self.seconds = seconds

    def __enter__(self):
        import signal

        def handler(signum, frame):
            raise HarnessTimeout()

        self._old = signal.signal(signal.SIGALRM, handler)
        signal.setitimer(signal.ITIMER_REAL, self.seconds)
        return self

    def __exit__(self, *a):
        import signal

        signal.setitimer(signal.ITIMER_REAL, 0)
        signal.signal(signal.SIGALRM, self._old)
        return False


def safe_decompile(acc, fn, infos, ops, named, seconds=20):
    """decompile under the watchdog; returns (text, sm) or None (counted)"""
    try:
        with TimeLimit(seconds):
            return fn(infos, ops, named)
    except HarnessTimeout:
        acc.count("decompile_watchdog")
        return None
    except RecursionError:
        acc.count("decompile_raised:RecursionError")
        return None
    except Exception as e:
        acc.count("decompile_raised:" + type(e).__name__)
        return None


def _map(x, f):
    if isinstance(x, tuple) and len(x) == 6 and x[0] == "pos" and isinstance(x[1], str):
        return f(x)
    if isinstance(x, tuple):
        return tuple(_map(y, f) for y in x)
    if isinstance(x, list):
        return [_map(y, f) for y in x]
    return x


def with_repeated_literals(prog, rnd):
    """The same program with some Position literals replaced by copies of earlier ones (the same mark used at several places)."""
    seen = []

    def f(p):
        if seen and rnd.random() < 0.4:
            q = rnd.choice(seen)
            if rnd.random() < 0.4:
                # the same name with other coordinates (an editor shows both; they are two marks)
                return (q[0], q[1], 2 - q[2] if q[2] in (0, 2) else q[2], q[3], q[4] + 1, q[5])
            return q
        seen.append(p)
        return p

    out = dict(prog)
    out["macros"] = _map(prog.get("macros", []), f)
    out["routines"] = _map(prog["routines"], f)
    return out
