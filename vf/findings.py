"""Known findings: committed list (/verif/known_findings.json) + executable defect models.

An entry is {"id", "property" (or "properties"), "status": "open" | "fixed: <commit>", "mechanism", "model",
"witness"}. A violation record is explained by an *open* entry only if the entry's model recognises
both the structural trigger in the (minimised) input and the wrong observation predicted from it.
Entries are keyed by mechanism, never by seed / hash / random values. `fixed` entries match nothing.
The file is never written at run time."""
from __future__ import annotations

import json
import os

from vf import env

_CACHE = None


def load():
    global _CACHE
    if _CACHE is None:
        p = os.path.join(env.VERIF, "known_findings.json")
        try:
            with open(p) as f:
                _CACHE = json.load(f)["findings"]
        except FileNotFoundError:
            _CACHE = []
    return _CACHE


MODELS = {}


def model(name):
    def deco(fn):
        MODELS[name] = fn
        return fn

    return deco


def classify(pid, v):
    """Returns '<id> <mechanism>' of the open finding that explains violation record v, else None."""
    for e in load():
        props = e.get("properties") or [e.get("property")]
        if pid not in props:
            continue
        if not str(e.get("status", "")).startswith("open"):
            continue
        fn = MODELS.get(e.get("model"))
        if fn is None:
            continue
        try:
            if fn(v):
                return f"{e['id']} {e['mechanism']}"
        except Exception:
            continue
    return None


# ------------------------------------------------------------------------------------ defect models
# Each model receives the violation record {"sig", "witness", "input", "kind"} and must check the trigger
# in the input *and* the predicted wrong observation in the witness.

def _strings_in(params):
    for p in params or []:
        if isinstance(p, (list, tuple)) and p:
            if p[0] == "str":
                yield p[1]
            elif p[0] == "lang":
                for _, s in p[1]:
                    yield s


# models are registered by the property modules' needs below (kept in one place for auditability)
