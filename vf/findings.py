"""Known findings: committed list (/verif/known_findings.json) + executable defect models.

An entry is {"id", "property" (or "properties"), "status": "open" | "fixed: <commit>", "mechanism", "model",
"witness"}. A violation record is explained by an *open* entry only if the entry's model recognises
both the structural trigger in the (minimised) input and the wrong observation predicted from it.
Entries are keyed by mechanism, never by seed / hash / random values. `fixed` entries match nothing.
The file is never written at run time."""
from __future__ import annotations

import json
import os

from vf import env

_CACHE = None


def load():
    global _CACHE
    if _CACHE is None:
        p = os.path.join(env.VERIF, "known_findings.json")
        try:
            with open(p) as f:
                _CACHE = json.load(f)["findings"]
        except FileNotFoundError:
            _CACHE = []
    return _CACHE


MODELS = {}


def model(name):
    def deco(fn):
        MODELS[name] = fn
        return fn

    return deco


NOT_STRUCTURING_SIGS = ("fallback-", "second-convert", "convert-raised", "runaway", "marker-")


def classify(pid, v):
    """Returns '<id> <mechanism>' of the open finding that explains violation record v, else None."""
    for e in load():
        props = e.get("properties") or [e.get("property")]
        if pid not in props:
            continue
        if not str(e.get("status", "")).startswith("open"):
            continue
        fn = MODELS.get(e.get("model"))
        if fn is None:
            continue
        # the structuring defects (K02-K09) explain a wrong *structured* answer; what the decompiler does when it gives up
        # (the marked SsbScript fallback, a second convert(), an exception, the step bound) is not explained by any of them
        if str(v.get("sig", "")).startswith(NOT_STRUCTURING_SIGS) and e.get("model") != "string-escape-rules":
            continue
        try:
            if fn(v):
                return f"{e['id']} {e['mechanism']}"
        except Exception:
            continue
    return None


# ------------------------------------------------------------------------------------ defect models
# Each model receives the violation record {"sig", "witness", "input", "kind"} and must check the trigger
# in the input *and* the predicted wrong observation in the witness.

def _strings_in(params):
    for p in params or []:
        if isinstance(p, (list, tuple)) and p:
            if p[0] == "str":
                yield p[1]
            elif p[0] == "lang":
                for _, s in p[1]:
                    yield s


# models are registered by the property modules' needs below (kept in one place for auditability)

import re as _re


def _walk_params(x, out):
    """collect (kind, string, quote) for every string-carrying parameter found in a nested JSON-ish structure"""
    if isinstance(x, dict):
        for v in x.values():
            _walk_params(v, out)
    elif isinstance(x, (list, tuple)):
        if len(x) >= 2 and x[0] == "str" and isinstance(x[1], str):
            out.append(("str", x[1], "'"))
        elif len(x) >= 2 and x[0] == "lang" and isinstance(x[1], (list, tuple)):
            for it in x[1]:
                if isinstance(it, (list, tuple)) and len(it) == 2 and isinstance(it[1], str):
                    out.append(("lang", it[1], '"'))
        elif len(x) == 6 and x[0] == "pos" and isinstance(x[1], str):
            out.append(("pos", x[1], "'"))
        else:
            for v in x:
                _walk_params(v, out)


def _lexable_single(text, q):
    return _re.fullmatch(q + r"(?:\\[\s\S]|[^\\\r\n\f" + q + r"])*" + q, text) is not None


def sim_print_parse(s, q, kind="str"):
    """Value obtained by the documented printing of a string value (single line literal with the preferred quote escaped,
    multi line literal when it contains a line break) followed by the documented parsing; None = not a lexable literal."""
    from vf import t2a

    if kind == "pos" or "\n" not in s or all(l.startswith(" ") for l in s.split("\n")) or ("'''" in s and '"""' in s):
        text = q + s.replace(q, "\\" + q).replace("\n", "\\n") + q
        if not _lexable_single(text, q):
            return None
        return t2a.dec_single(text)
    # multi line literal: backslashes are kept; carriage returns count as line breaks
    return s.replace("\r\n", "\n").replace("\r", "\n")


def _trigger(s):
    return "\\" in s or "\r" in s or "\f" in s


def _norm_param(p):
    """JSON lists -> comparable tuples"""
    if isinstance(p, list):
        return tuple(_norm_param(x) for x in p)
    return p


def _explains_value_change(expected, got):
    """expected / got: canonical parameter keys. True iff every difference is the predicted effect of the escape rules."""
    expected, got = _norm_param(expected), _norm_param(got)
    if expected is None or got is None or expected[0] != got[0]:
        return False
    k = expected[0]
    if k == "str":
        pairs = [(expected[1], got[1], "'", "str")]
    elif k == "lang":
        if [a for a, _ in expected[1]] != [a for a, _ in got[1]]:
            return False
        pairs = [(e[1], g[1], '"', "lang") for e, g in zip(expected[1], got[1])]
    elif k == "pos":
        if expected[2:] != got[2:]:
            return False
        pairs = [(expected[1], got[1], "'", "pos")]
    else:
        return False
    changed = False
    for e, g, q, kind in pairs:
        if e == g:
            continue
        changed = True
        if not _trigger(e):
            return False
        pred = sim_print_parse(e, q, kind)
        if pred is not None and pred != g:
            if "\r" in e and "\n" in pred:
                # a carriage return inside a multi line literal is a line break in the middle of a printed line: the
                # lines come back with the printer's indentation in unpredictable amounts and without empty last lines
                def shape(t):
                    ls = [l.lstrip(" ") for l in t.split("\n")]
                    while ls and ls[-1] == "":
                        ls.pop()
                    return ls
                if shape(pred) == shape(g):
                    continue
            return False
    return changed


@model("string-escape-rules")
def _m_string_escape(v):
    """Trigger: a string value containing a backslash, carriage return or form feed. Predicted observation: the value that
    comes back is exactly the one the documented (lossy) escape rules give for the printed literal, or - when the printed
    text is not a lexable literal - the text is rejected."""
    w = v.get("witness") or {}
    sig = v.get("sig", "")
    strings = []
    _walk_params(v.get("input"), strings)
    trig = [(k, s, q) for k, s, q in strings if _trigger(s)]
    if not trig:
        return False
    if "expected" in w and "got" in w:
        return _explains_value_change(w["expected"], w["got"])
    fd = w.get("first_difference")
    if fd and len(fd) == 6:
        return _explains_value_change(fd[4], fd[5])
    if "rejected" in sig or "differ" in sig:
        # the printed text does not parse (or parses to something else): only explained if a literal is predicted unlexable
        return any(sim_print_parse(s, q, k) is None for k, s, q in trig)
    return False


# ------------------------------------------------------------------------------ decompiler defect models
def _spec_ops(v):
    spec = (v.get("input") or {}).get("spec")
    if not spec:
        return None
    return spec["routines"]


def _jump_target(op):
    from vf.lts import JUMP_IDX

    off, name, ps = op[0], op[1], op[2]
    if name in JUMP_IDX and len(ps) > JUMP_IDX[name]:
        t = ps[JUMP_IDX[name]]
        return t[1] if isinstance(t, (list, tuple)) else t
    return None


def _mis_structured_text(w):
    """the other face of a mis-structured loop / join: the text names a label it does not write, or leaves a loop it is not in"""
    err = str(w.get("error", ""))
    return "does not exist, but a jump to it does" in err or err.startswith(("Unexpected break_loop", "Unexpected continue", "Unexpected break"))


def _reachable_offsets(routine, ctx_aware=True, follow_calls=True, through_ends=False):
    """offsets of the ops of one routine that are reachable from its first op (following jumps inside the routine).
    ctx_aware=False: as the decompiler sees it (a flow-ending op ends the flow also when it is run under lives / object / performer)"""
    from vf.lts import FLOW_END, CTX_OPS

    ops = routine["ops"]
    idx = {o[0]: i for i, o in enumerate(ops)}
    seen = set()
    stack = [0] if ops else []
    while stack:
        i = stack.pop()
        if i in seen or i >= len(ops):
            continue
        seen.add(i)
        off, name, ps = ops[i][0], ops[i][1], ops[i][2]
        t = _jump_target(ops[i])
        if t is not None and t in idx and (follow_calls or name != "Call"):
            stack.append(idx[t])
        after_ctx = ctx_aware and i > 0 and ops[i - 1][1] in CTX_OPS
        if name == "Jump" or (name == "JumpCommon" and not ctx_aware):
            # (for the decompiler JumpCommon is a guaranteed jump like Jump: nothing follows it, whatever stands in front of it)
            continue
        if name in FLOW_END and not after_ctx and not through_ends:
            continue
        stack.append(i + 1)
    return {ops[i][0] for i in seen}


@model("cross-routine-jump-to-unreachable-op")
def _m_unreachable_target(v):
    """Trigger: a jump-carrying op whose target lies in another routine and is not reachable from that routine's own first op
    (the decompiler only writes reachable ops). Observation: the text is rejected because the label is never written."""
    rs = _spec_ops(v)
    if not rs:
        return False
    w = v.get("witness") or {}
    if "does not exist, but a jump to it does" not in str(w.get("error", "")):
        return False
    owner = {}
    for ri, r in enumerate(rs):
        for o in r["ops"]:
            owner[o[0]] = ri
    reach = [_reachable_offsets(r, ctx_aware=False) for r in rs]
    for ri, r in enumerate(rs):
        for o in r["ops"]:
            t = _jump_target(o)
            if t is not None and t in owner and owner[t] != ri and t not in reach[owner[t]]:
                return True
    return False


@model("branchvalue-with-equals-operator")
def _m_branchvalue_eq(v):
    """Trigger: a BranchValue op with operator 2 (==). Observation: it comes back as Branch with the same variable and value."""
    rs = _spec_ops(v)
    if not rs or not any(o[1] == "BranchValue" and len(o[2]) > 1 and o[2][1] in (2, ["int", 2], ("int", 2)) for r in rs for o in r["ops"]):
        return False
    w = v.get("witness") or {}
    if "text_there" in w and w.get("op"):
        # C09 shape: the entry of the BranchValue(==) op points at an `if`/`elseif` header that spells `a == b` (read as Branch)
        op = w["op"]
        return op[0] == "BranchValue" and len(op[1]) == 3 and op[1][1] == "('int', 2)" and \
            str(w["text_there"]).lstrip("} ").startswith(("if", "elseif")) and "==" in str(w["text_there"])
    s, i = w.get("spec"), w.get("impl")
    if not s or not i or len(s) < 3 or len(i) < 3:
        return False
    return s[1] == "BranchValue" and i[1] == "Branch" and list(map(_norm_param, s[2]))[1] in (("int", 2),) and \
        [x for k, x in enumerate(map(_norm_param, s[2])) if k != 1] == list(map(_norm_param, i[2]))


@model("test-that-loops-back-to-itself")
def _m_self_loop(v):
    """Trigger: a Branch*/Case*/Call op from which one outcome leads back to the same op through jumps only (an empty
    while body, `@l; call @l;`). Observation: a behaviour mismatch (clause ii / iii) in a routine that contains such an op."""
    from vf.lts import JUMP_IDX

    rs = _spec_ops(v)
    if not rs:
        return False
    w = v.get("witness") or {}
    if w.get("clause") not in ("ii", "iii") and not _mis_structured_text(w):
        return False
    byoff = {}
    nxt = {}
    for r in rs:
        for i, o in enumerate(r["ops"]):
            byoff[o[0]] = o
            nxt[o[0]] = r["ops"][i + 1][0] if i + 1 < len(r["ops"]) else None

    def silent(off):
        seen = set()
        while off is not None and off in byoff and byoff[off][1] == "Jump" and off not in seen:
            seen.add(off)
            off = _jump_target(byoff[off])
        return off

    ri = w.get("routine")
    for k, r in enumerate(rs):
        if ri is not None and k != ri:
            continue
        for o in r["ops"]:
            if o[1] in JUMP_IDX and o[1] != "Jump":
                if silent(_jump_target(o)) == o[0] or silent(nxt[o[0]]) == o[0]:
                    return True
    return False


@model("unstructured-input-class")
def _m_unstructured(v):
    """Trigger: the input belongs to a workload class with unstructured control flow (programs with user labels and jump / call
    statements and other layouts of them, random flow graphs, random special-opcode sets: case ops without a switch, tests in
    arbitrary cycles, a loop that is left into the head of the next loop, ...), as recorded by the generator. The more specific
    models (K02, K04, K07, K08, K09) are consulted first. Observation:
    the structured text does not compile because of a missing label, or it compiles but behaves differently (clause ii/iii)."""
    inp = v.get("input") or {}
    if not inp.get("unstructured"):
        return False
    w = v.get("witness") or {}
    if w.get("clause") in ("ii", "iii"):
        return True
    err = str(w.get("error", ""))
    # (a jump that was turned into break_loop / continue although the writer had already left the loop is the same mechanism)
    return "does not exist, but a jump to it does" in err or err.startswith(("Unexpected break_loop", "Unexpected continue", "Unexpected break"))


@model("test-with-both-outcomes-to-the-same-op-on-a-cycle")
def _m_both_outcomes_same(v):
    """Trigger: a Branch* / Case* op both of whose outcomes lead (through jumps only) to the same op, and which lies on a cycle
    (an `if` with an empty block inside a loop, laid out with its jump kept). Observation: behaviour mismatch (clause ii / iii) in
    that routine: the loop passes take the test for the exit test of a `forever` loop."""
    from vf.lts import JUMP_IDX, FLOW_END, CTX_OPS

    rs = _spec_ops(v)
    if not rs:
        return False
    w = v.get("witness") or {}
    if w.get("clause") not in ("ii", "iii") and not _mis_structured_text(w):
        return False
    byoff, nxt, prev = {}, {}, {}
    for r in rs:
        for i, o in enumerate(r["ops"]):
            byoff[o[0]] = o
            nxt[o[0]] = r["ops"][i + 1][0] if i + 1 < len(r["ops"]) else None
            prev[o[0]] = r["ops"][i - 1] if i > 0 else None

    def silent(off):
        seen = set()
        while off is not None and off in byoff and byoff[off][1] == "Jump" and off not in seen:
            seen.add(off)
            off = _jump_target(byoff[off])
        return off

    def succ(off):
        o = byoff[off]
        name = o[1]
        if name == "Jump":
            return [_jump_target(o)]
        if name in JUMP_IDX:
            return [_jump_target(o), nxt[off]]
        if name in FLOW_END and not (prev[off] is not None and prev[off][1] in CTX_OPS):
            return []
        return [nxt[off]]

    ri = w.get("routine")
    for k, r in enumerate(rs):
        if ri is not None and k != ri:
            continue
        for o in r["ops"]:
            if o[1] in JUMP_IDX and o[1] not in ("Jump", "Call") and silent(_jump_target(o)) == silent(nxt[o[0]]) and silent(nxt[o[0]]) is not None:
                # on a cycle?
                seen, stack = set(), [x for x in succ(o[0]) if x is not None]
                while stack:
                    x = stack.pop()
                    if x == o[0]:
                        return True
                    if x in seen or x not in byoff:
                        continue
                    seen.add(x)
                    stack += [y for y in succ(x) if y is not None]
    return False


@model("call-position-on-dropped-first-op")
def _m_call_pos_dropped(v):
    """Trigger / observation (C08): the first op of a macro expansion was removed by jump elimination (a macro body that starts
    with a `while` loop: its leading jump to the loop test jumps to the next label); the call position is only on the source map
    entry of that removed op, the first emitted op of the expansion has none."""
    w = v.get("witness") or {}
    return v.get("sig", "").startswith("call-position-only-on-dropped-first-op") and w.get("got") is None and bool(w.get("dropped_ops_with_the_call_position"))


@model("casescenario-printed-as-value-case")
def _m_casescenario(v):
    """Trigger: a CaseScenario op. Observation: it comes back as CaseValue with the same parameters (the switch writer prints it as
    an operator case, `case > 3:`, which the compiler reads as CaseValue)."""
    rs = _spec_ops(v)
    if not rs or not any(o[1] == "CaseScenario" for r in rs for o in r["ops"]):
        return False
    w = v.get("witness") or {}
    sp, im = w.get("spec"), w.get("impl")
    if not sp or not im or len(sp) < 3 or len(im) < 3:
        return False
    return sp[1] == "CaseScenario" and im[1] == "CaseValue" and list(map(_norm_param, sp[2])) == list(map(_norm_param, im[2]))


@model("called-label-reached-only-by-the-call")
def _m_called_only(v):
    """Trigger: a Call op whose target op is not reachable from the first op of its routine unless the call itself is followed, and
    which does not follow a flow-ending op either (the writer continues after `end;` / `return;` when there are calls, but not
    after a Jump): nothing makes the writer visit it. Observation: the text calls a label it does not write."""
    rs = _spec_ops(v)
    if not rs:
        return False
    w = v.get("witness") or {}
    if "does not exist, but a jump to it does" not in str(w.get("error", "")):
        return False
    from vf.lts import FLOW_END

    for r in rs:
        # what the writer visits: from the first op along jumps and fall-through, also past flow-ending ops (with calls in the
        # routine set it keeps going after `end;` / `return;`), but not into called labels and not past a Jump
        reach = _reachable_offsets(r, ctx_aware=False, follow_calls=False, through_ends=True)
        own = {o[0] for o in r["ops"]}
        for o in r["ops"]:
            if o[1] == "Call":
                t = _jump_target(o)
                if t in own and t not in reach and o[0] in reach:
                    return True
    return False
