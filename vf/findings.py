"""Known findings: committed list (/verif/known_findings.json) + executable defect models.

An entry is {"id", "property" (or "properties"), "status": "open" | "fixed: <commit>", "mechanism", "model",
"witness"}. A violation record is explained by an *open* entry only if the entry's model recognises
both the structural trigger in the (minimised) input and the wrong observation predicted from it.
Entries are keyed by mechanism, never by seed / hash / random values. `fixed` entries match nothing.
The file is never written at run time."""
from __future__ import annotations

import json
import os

from vf import env

_CACHE = None


def load():
    global _CACHE
    if _CACHE is None:
        p = os.path.join(env.VERIF, "known_findings.json")
        try:
            with open(p) as f:
                _CACHE = json.load(f)["findings"]
        except FileNotFoundError:
            _CACHE = []
    return _CACHE


MODELS = {}


def model(name):
    def deco(fn):
        MODELS[name] = fn
        return fn

    return deco


def classify(pid, v):
    """Returns '<id> <mechanism>' of the open finding that explains violation record v, else None."""
    for e in load():
        props = e.get("properties") or [e.get("property")]
        if pid not in props:
            continue
        if not str(e.get("status", "")).startswith("open"):
            continue
        fn = MODELS.get(e.get("model"))
        if fn is None:
            continue
        try:
            if fn(v):
                return f"{e['id']} {e['mechanism']}"
        except Exception:
            continue
    return None


# ------------------------------------------------------------------------------------ defect models
# Each model receives the violation record {"sig", "witness", "input", "kind"} and must check the trigger
# in the input *and* the predicted wrong observation in the witness.

def _strings_in(params):
    for p in params or []:
        if isinstance(p, (list, tuple)) and p:
            if p[0] == "str":
                yield p[1]
            elif p[0] == "lang":
                for _, s in p[1]:
                    yield s


# models are registered by the property modules' needs below (kept in one place for auditability)

import re as _re


def _walk_params(x, out):
    """collect (kind, string, quote) for every string-carrying parameter found in a nested JSON-ish structure"""
    if isinstance(x, dict):
        for v in x.values():
            _walk_params(v, out)
    elif isinstance(x, (list, tuple)):
        if len(x) >= 2 and x[0] == "str" and isinstance(x[1], str):
            out.append(("str", x[1], "'"))
        elif len(x) >= 2 and x[0] == "lang" and isinstance(x[1], (list, tuple)):
            for it in x[1]:
                if isinstance(it, (list, tuple)) and len(it) == 2 and isinstance(it[1], str):
                    out.append(("lang", it[1], '"'))
        elif len(x) == 6 and x[0] == "pos" and isinstance(x[1], str):
            out.append(("pos", x[1], "'"))
        else:
            for v in x:
                _walk_params(v, out)


def _lexable_single(text, q):
    return _re.fullmatch(q + r"(?:\\[\s\S]|[^\\\r\n\f" + q + r"])*" + q, text) is not None


def sim_print_parse(s, q, kind="str"):
    """Value obtained by the documented printing of a string value (single line literal with the preferred quote escaped,
    multi line literal when it contains a line break) followed by the documented parsing; None = not a lexable literal."""
    from vf import t2a

    if kind == "pos" or "\n" not in s or all(l.startswith(" ") for l in s.split("\n")) or ("'''" in s and '"""' in s):
        text = q + s.replace(q, "\\" + q).replace("\n", "\\n") + q
        if not _lexable_single(text, q):
            return None
        return t2a.dec_single(text)
    # multi line literal: backslashes are kept; carriage returns count as line breaks
    return s.replace("\r\n", "\n").replace("\r", "\n")


def _trigger(s):
    return "\\" in s or "\r" in s or "\f" in s


def _norm_param(p):
    """JSON lists -> comparable tuples"""
    if isinstance(p, list):
        return tuple(_norm_param(x) for x in p)
    return p


def _explains_value_change(expected, got):
    """expected / got: canonical parameter keys. True iff every difference is the predicted effect of the escape rules."""
    expected, got = _norm_param(expected), _norm_param(got)
    if expected is None or got is None or expected[0] != got[0]:
        return False
    k = expected[0]
    if k == "str":
        pairs = [(expected[1], got[1], "'", "str")]
    elif k == "lang":
        if [a for a, _ in expected[1]] != [a for a, _ in got[1]]:
            return False
        pairs = [(e[1], g[1], '"', "lang") for e, g in zip(expected[1], got[1])]
    elif k == "pos":
        if expected[2:] != got[2:]:
            return False
        pairs = [(expected[1], got[1], "'", "pos")]
    else:
        return False
    changed = False
    for e, g, q, kind in pairs:
        if e == g:
            continue
        changed = True
        if not _trigger(e):
            return False
        pred = sim_print_parse(e, q, kind)
        if pred is not None and pred != g:
            if "\r" in e and "\n" in pred:
                # a carriage return inside a multi line literal is a line break in the middle of a printed line: the
                # lines come back with the printer's indentation in unpredictable amounts and without empty last lines
                def shape(t):
                    ls = [l.lstrip(" ") for l in t.split("\n")]
                    while ls and ls[-1] == "":
                        ls.pop()
                    return ls
                if shape(pred) == shape(g):
                    continue
            return False
    return changed


@model("string-escape-rules")
def _m_string_escape(v):
    """Trigger: a string value containing a backslash, carriage return or form feed. Predicted observation: the value that
    comes back is exactly the one the documented (lossy) escape rules give for the printed literal, or - when the printed
    text is not a lexable literal - the text is rejected."""
    w = v.get("witness") or {}
    sig = v.get("sig", "")
    strings = []
    _walk_params(v.get("input"), strings)
    trig = [(k, s, q) for k, s, q in strings if _trigger(s)]
    if not trig:
        return False
    if "expected" in w and "got" in w:
        return _explains_value_change(w["expected"], w["got"])
    fd = w.get("first_difference")
    if fd and len(fd) == 6:
        return _explains_value_change(fd[4], fd[5])
    if "rejected" in sig or "differs" in sig:
        # the printed text does not parse (or parses to something else): only explained if a literal is predicted unlexable
        return any(sim_print_parse(s, q, k) is None for k, s, q in trig)
    return False
