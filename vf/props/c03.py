"""C03 - compiled output is a closed, uniquely addressed op list.
Monitor K-COMPILE (post-condition on both compilers, vf/monitors.py) evaluated on every successful compilation
of the workload: G-EXPS (catalogue + random), the SsbScript spelling of each result, macro programs."""
from __future__ import annotations

import random

from vf import monitors, norm
from vf.common import exps_workload, std_shards, try_compile, gsig, prog_from_json, safe_decompile
from vf.esast import print_program
from vf.lts import JUMP_IDX

LEVEL = "exploration"
ASSUMPTIONS = ["jump-carrying kinds = Jump, Call, Branch*, Case* (own table in vf/lts.py)",
               "the post-condition is evaluated by icontract.ensure on the real compile methods"]


def shards(tier, seed):
    from vf.common import shard_seeds
    hostile = [{"kind": "hostile", "seed": s, "n": 60 if tier == "quick" else 1500} for s in shard_seeds(seed, 2, "C03h")]
    return std_shards("C03", tier, seed, 200, 2500, nshards=13) + hostile + macro_shards(tier, seed)[:2]


def macro_shards(tier, seed):
    from vf.common import shard_seeds
    return [{"kind": "macro", "seed": s, "n": 40 if tier == "quick" else 600} for s in shard_seeds(seed, 4, "C03m")]


def features(c):
    offs = [op.offset for r in c.routine_ops for op in r]
    feats = []
    if offs and (max(offs) - min(offs) + 1) != len(offs):
        feats.append("offset_gaps")
    rt = {op.offset: ri for ri, r in enumerate(c.routine_ops) for op in r}
    for ri, r in enumerate(c.routine_ops):
        for op in r:
            if op.op_code.name in JUMP_IDX and op.params and isinstance(op.params[-1], int):
                if rt.get(op.params[-1], ri) != ri:
                    feats.append("cross_routine_jump")
    if any(len(r) == 0 for r in c.routine_ops):
        feats.append("alias_routine")
    if c.source_map is not None and any(True for _ in c.source_map.collect_mappings__macros()):
        feats.append("macro_ops")
    return set(feats)


def one(acc, text, inp, lookup=None, path=None, canonical_arity=False):
    monitors.drain()
    before = monitors.COUNTS.get("K-COMPILE:evaluations", 0)
    acc.announce(inp.get("name"), {"text": text})
    c = try_compile(text, acc, lookup, path)
    if c is None:
        monitors.drain()
        return None
    if monitors.COUNTS.get("K-COMPILE:evaluations", 0) == before:
        acc.inconc("monitor-not-evaluated")
        return c
    acc.count("monitor_evaluations")
    f = features(c)
    for x in f:
        acc.count("feature:" + x)
    njumps = sum(1 for r in c.routine_ops for op in r if op.op_code.name in JUMP_IDX)
    acc.count("jump_ops_checked", njumps)
    acc.case(text, njumps >= 1)
    for m in monitors.drain():
        if m["prop"] == "C03":
            acc.violation(gsig(m["sig"]), m["witness"], inp)
    if canonical_arity:
        # programs of my own generator write every test with the usual number of arguments: then the target is the one
        # parameter after them (an op that carries two trailing offsets has its own target not in the last place)
        for r in c.routine_ops:
            for op in r:
                name = op.op_code.name
                if name in JUMP_IDX and len(op.params) != JUMP_IDX[name] + 1:
                    acc.violation(gsig("jump-op-with-surplus-parameters", name), {"op": [op.offset, name, [repr(p) for p in op.params]]}, inp)
                    return c
        acc.count("programs_checked_for_arity")
    return c


def run_shard(shard, acc):
    monitors.install()
    if shard["kind"] == "macro":
        from vf.macrogen import macro_workload
        for name, lay in macro_workload(shard):
            with lay:
                c = one(acc, lay.main_text, {"name": name, "layout": lay.describe()}, lay.lookup, lay.main_path, canonical_arity=True)
            acc.count("macro_programs")
        return
    if shard["kind"] == "hostile":
        # whatever the compiler accepts among degenerate inputs, token soup and corrupted programs must be closed too
        from vf import invalid
        rnd = random.Random(shard["seed"])
        texts = list(invalid.DEGENERATE)
        for name, prog in exps_workload({"kind": "random", "seed": shard["seed"], "n": shard["n"], "depth": 2}):
            t = print_program(prog).text
            texts += [invalid.corrupt(t, rnd) for _ in range(6)]
        texts += [invalid.soup_text(rnd) for _ in range(shard["n"] * 3)]
        # SsbScript with labels in unusual places: after the last op of a routine / of the file, several on one op, before the
        # first op of the next routine
        for body in ["a();\n    Jump(@e);\n    b();\n    @e;", "a();\n    Branch($A, 1, @e);\n    End();\n    @e;", "@s;\n    a();\n    @t;\n    @u;\n    Jump(@u);",
                     "Jump(@n);", "a();\n    @e;\n    @f;\n    Call(@f);\n    End();"]:
            texts.append("//?: is-ssb-script: true\ndef 0 {\n    " + body + "\n}\n")
            texts.append("//?: is-ssb-script: true\ndef 0 {\n    " + body + "\n}\ndef 1 {\n    @n;\n    c();\n    End();\n}\n")
            texts.append("//?: is-ssb-script: true\ndef 0 {\n    z();\n    End();\n}\ndef 1 {\n    " + body + "\n}\n")
        # jump-carrying operations written by hand with fewer / more arguments than their opcode usually has
        args = ["$F", "3", '"extra"', "CONST_X", "1.5", "{english='x'}", "Position<'m', 1, 2>"]
        for name in sorted(JUMP_IDX):
            if name in ("Jump", "Call"):
                continue
            for nargs in range(0, 6):
                a = ", ".join(rnd.choice(args) for _ in range(nargs))
                if name.startswith("Branch"):
                    texts.append(f"def 0 {{ if ({name}({a})) {{ a(); }} elseif (not {name}({a})) {{ b(); }} while ({name}({a})) {{ c(); }} end; }}")
                texts.append(f"//?: is-ssb-script: true\ndef 0 {{\n    {name}({a + ', ' if a else ''}@l);\n    a();\n    @l;\n    End();\n}}\n")
                acc.count("hand_written_jump_ops_with_unusual_arity", 2)
        for t in texts:
            acc.count("hostile_texts")
            if one(acc, t, {"name": "hostile", "text": t}) is not None:
                acc.count("hostile_accepted")
        return
    for i, (name, prog) in enumerate(exps_workload(shard)):
        r = print_program(prog)
        c = one(acc, r.text, {"name": name, "prog": prog, "text": r.text}, canonical_arity=True)
        if c is None:
            continue
        if i < 2:
            acc.sample({"name": name, "text": r.text[:800], "ops": norm.raw(c.routine_ops)[:1]})
        # the SsbScript spelling of the same routines goes through the other compiler
        res = safe_decompile(acc, norm.decompile_ssbs, c.routine_infos, c.routine_ops, c.named_coroutines, 10)
        if res is None:
            continue
        t = res[0]
        monitors.drain()
        one(acc, "//?: is-ssb-script: true\n" + t, {"name": name + ":ssbs", "text": t})
        if i % 4 == 0:
            # the same with an extra argument in front of the label of some jump-carrying ops
            import re
            r2 = random.Random(i)
            t2 = re.sub(r"\((.*?)(@label_\d+)\);", lambda m: f"({m.group(1)}'extra', {m.group(2)});" if r2.random() < 0.4 else m.group(0), t)
            if t2 != t:
                one(acc, "//?: is-ssb-script: true\n" + t2, {"name": name + ":ssbs+extra", "text": t2})
                acc.count("ssbscript_texts_with_extra_arguments")


def summarize(agg, tier):
    c = agg["counters"]
    cov = {
        "rule": "every successful compilation (ExplorerScript and SsbScript) of the workload is checked by the "
                "K-COMPILE post-condition; distinct by source text; non-trivial = result contains >= 1 jump-carrying op",
        "monitor_evaluations": c.get("monitor_evaluations", 0),
        "jump_ops_checked": c.get("jump_ops_checked", 0),
        "features_seen": {k[8:]: v for k, v in c.items() if k.startswith("feature:")},
    }
    floors = []
    if c.get("monitor_evaluations", 0) < 200:
        floors.append("K-COMPILE evaluated fewer than 200 times")
    for f in ("offset_gaps", "cross_routine_jump", "alias_routine"):
        if c.get("feature:" + f, 0) == 0:
            floors.append(f"feature never seen: {f}")
    return cov, not floors, floors


def replay(inp, acc):
    monitors.install()
    if "text" in inp:
        one(acc, inp["text"], inp)
