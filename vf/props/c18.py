"""C18 - the position-mark listing delimits every Position literal exactly.
Workload: G-EXPS programs rich in Position literals (routines, macro bodies, macro-call arguments, switch / if
headers), several per line, spread over lines by random layouts, both quote styles, all number spellings.
Oracle: the listing of the real PositionMarkVisitor against the printer's own record; edit clause by recompiling."""
from __future__ import annotations

import random

from vf import monitors, norm
from vf.common import exps_workload, std_shards, gsig, try_compile, prog_from_json, with_repeated_literals
from vf.esast import print_program, Style

LEVEL = "exploration"
ASSUMPTIONS = ["the printer records (line, col) of the word Position and of the closing '>' of every literal it prints",
               "edit clause only for literals that occur in exactly one compiled op (not inside macro bodies that are expanded "
               "several times)"]


def shards(tier, seed):
    return std_shards("C18", tier, seed, 50, 1200, catalogue=False, extra={"cfg": {"pos_p": 0.35}, "macro_share": 0.5})


def listing(text):
    from explorerscript.explorerscript_reader import ExplorerScriptReader
    from explorerscript.ssb_converting.compiler.compiler_visitor.position_mark_visitor import PositionMarkVisitor

    tree = ExplorerScriptReader(text).read()
    fresh = PositionMarkVisitor().visit(tree)
    # an editor keeps its visitor: the listing of an object that has listed other files before must be the same
    if _REUSED[0] is None:
        _REUSED[0] = PositionMarkVisitor()
    again = _REUSED[0].visit(ExplorerScriptReader(text).read())
    _REUSED[1] += 1
    key = lambda ms: [(m.line_number, m.column_number, m.end_line_number, m.end_column_number, m.name, m.x_offset, m.y_offset, m.x_relative, m.y_relative) for m in ms or []]
    if key(again) != key(fresh):
        raise ReusedVisitorDiffers(f"{len(again or [])} entries from the reused visitor, {len(fresh or [])} from a fresh one")
    return fresh


_REUSED = [None, 0]


class ReusedVisitorDiffers(Exception):
    pass


def compiled_marks(c):
    out = {}
    for r in c.routine_ops:
        for op in r:
            for i, p in enumerate(op.params):
                if type(p).__name__ == "SsbOpParamPositionMarker":
                    out.setdefault(p.name, []).append((op.offset, i, p))
    return out


def check(acc, prog, sseed, lseed, mode, name, sample=False):
    style = Style(random.Random(sseed), 0.4) if mode not in (1, 3) else None
    layout = "dense" if mode == 3 else random.Random(lseed) if mode != 2 else None  # 3: the whole program on one line
    r = print_program(prog, style, layout)
    inp = {"name": name, "prog": prog, "style_seed": sseed, "layout_seed": lseed, "mode": mode, "text": r.text}
    acc.announce(name, {"text": r.text})
    try:
        marks = listing(r.text)
    except ReusedVisitorDiffers as e:
        acc.violation(gsig("listing-of-a-reused-visitor-differs"), {"detail": str(e), "listings_by_that_visitor": _REUSED[1]}, inp)
        return
    except Exception as e:
        acc.count("listing_raised:" + type(e).__name__)
        return
    acc.count("listings")
    exp = r.posmarks
    acc.count("literals", len(exp))
    acc.case(r.text, len(exp) >= 1)
    if len(marks) != len(exp):
        acc.violation(gsig("count", "more" if len(marks) > len(exp) else "fewer"), {"expected": len(exp), "got": len(marks)}, inp)
        return
    multi = 0
    for n, (m, p) in enumerate(zip(marks, exp)):
        start = r.pos[("pos", n)]
        end = r.endpos[("posend", n)]
        got = ((m.line_number, m.column_number), (m.end_line_number, m.end_column_number))
        if end[0] != start[0]:
            multi += 1
        if got != (start, end):
            which = "start" if got[0] != start else "end"
            acc.violation(gsig("span", which, "multiline" if end[0] != start[0] else "oneline"),
                          {"literal": n, "expected": [start, end], "got": got, "name": p[1]}, inp)
            return
        vals = (m.name, m.x_offset, m.y_offset, m.x_relative, m.y_relative)
        if vals != (p[1], p[2], p[3], p[4], p[5]):
            acc.violation(gsig("values"), {"literal": n, "expected": list(p[1:]), "got": vals}, inp)
            return
    acc.count("multiline_literals", multi)
    # against the compiler
    c = try_compile(r.text, acc)
    if c is None:
        return
    cm = compiled_marks(c)
    # (a name may be written at several places, also with other coordinates: a compiled parameter must carry the values of one
    # of the listed literals of its name)
    listed_values = {}
    for m in marks:
        listed_values.setdefault(m.name, set()).add((m.x_offset, m.y_offset, m.x_relative, m.y_relative))
    for nm, vals in listed_values.items():
        for off, i, p in cm.get(nm, []):
            acc.count("paired_with_compiled_param")
            if (p.x_offset, p.y_offset, p.x_relative, p.y_relative) not in vals:
                acc.violation(gsig("listing-differs-from-compiled-parameter"), {"name": nm}, inp)
                return
    # edit clause
    listed = {}
    for m in marks:
        listed[m.name] = listed.get(m.name, 0) + 1
    cands = [m for m in marks if len(cm.get(m.name, [])) == 1 and listed[m.name] == 1]
    if not cands:
        return
    rnd = random.Random(lseed ^ 0x18)
    m = rnd.choice(cands)
    from explorerscript.ssb_converting.ssb_data_types import SsbOpParamPositionMarker

    # the edited mark may also get another name (an editor lets the user rename it): quotes, blanks and line breaks included
    new_name = m.name + rnd.choice(["", "", "_e", " e d", "'s", ' "q"', "\nline2", "\n line2\n", "\t",
                                     # an even number of backslashes before a single quote (an odd number, and backslashes
                                     # before a double quote, do not survive on the unchanged tree: finding K01)
                                     "C:\\\\'s", "\\\\\\\\'"])
    edited = SsbOpParamPositionMarker(new_name, 2 - m.x_offset if m.x_offset in (0, 2) else 0, m.y_offset, m.x_relative + 7, m.y_relative)
    lines = r.text.split("\n")
    # absolute indices of the span
    def absidx(line, col):
        return sum(len(l) + 1 for l in lines[:line]) + col

    a, b = absidx(m.line_number, m.column_number), absidx(m.end_line_number, m.end_column_number)
    if "\r" in r.text:
        # line numbering of the lexer counts \n only; my absolute index computation splits on \n as well
        pass
    new_text = r.text[:a] + str(edited) + r.text[b + 1:]
    c2 = try_compile(new_text, acc)
    acc.count("edits")
    if c2 is None:
        acc.violation(gsig("edit-breaks-program"), {"replaced": r.text[a:b + 1], "by": str(edited)}, dict(inp, edited_text=new_text))
        return
    k1, k2 = norm.raw(c.routine_ops), norm.raw(c2.routine_ops)
    diffs = []
    if [len(x) for x in k1] != [len(x) for x in k2]:
        diffs.append("shape")
    else:
        for ra, rb in zip(k1, k2):
            for x, y in zip(ra, rb):
                if x != y:
                    diffs.append((x, y))
    off, pi, _ = cm[m.name][0]
    ok = len(diffs) == 1 and diffs[0] != "shape" and diffs[0][0][0] == off and \
        diffs[0][1][2][pi] == ("pos", new_name, edited.x_offset, edited.y_offset, edited.x_relative, edited.y_relative) and \
        all(x == y for j, (x, y) in enumerate(zip(diffs[0][0][2], diffs[0][1][2])) if j != pi)
    if not ok or norm.infos(c.routine_infos, c.named_coroutines) != norm.infos(c2.routine_infos, c2.named_coroutines):
        acc.violation(gsig("edit-changed-more-or-less-than-one-parameter"), {"diffs": repr(diffs)[:400], "replaced": r.text[a:b + 1]},
                      dict(inp, edited_text=new_text))
    if sample:
        acc.sample({"text": r.text[:600], "listing": [str(x) for x in marks[:4]], "edit": {"span": r.text[a:b + 1], "by": str(edited)}})


def run_shard(shard, acc):
    monitors.install()
    rnd = random.Random(shard["seed"] ^ 0x18)
    for i, (name, prog) in enumerate(exps_workload(shard)):
        for mode in (0, 1, 2):
            check(acc, prog, rnd.randrange(1 << 40), rnd.randrange(1 << 40), mode, name, sample=(i == 1 and mode == 0))
        # the same mark written at several places (identical literal text when no style varies the spelling)
        prog2 = with_repeated_literals(prog, rnd)
        acc.count("programs_with_repeated_literals")
        for mode in (1, 0, 3):
            check(acc, prog2, rnd.randrange(1 << 40), rnd.randrange(1 << 40), mode, name + ":repeated")


def summarize(agg, tier):
    c = agg["counters"]
    cov = {
        "rule": "programs with many Position literals x (style+layout / layout only / style only); distinct by text; "
                "non-trivial = at least one Position literal",
        "listings": c.get("listings", 0), "literals_checked": c.get("literals", 0),
        "multiline_literals": c.get("multiline_literals", 0), "edits_recompiled": c.get("edits", 0),
        "paired_with_compiled_param": c.get("paired_with_compiled_param", 0),
    }
    floors = []
    if c.get("literals", 0) < 1000 or c.get("multiline_literals", 0) < 50 or c.get("edits", 0) < 100:
        floors.append("too few literals / multi-line literals / edits observed")
    return cov, not floors, floors


def replay(inp, acc):
    monitors.install()
    check(acc, prog_from_json(inp["prog"]), inp["style_seed"], inp["layout_seed"], inp["mode"], inp.get("name"))
