"""C05 - a macro call means its body inlined, in any definition order and file layout.
Workload G-MACRO: acyclic macro call graphs over directory layouts (./, ../, absolute, lookup paths with shadowing,
diamond and nested imports), all definition orders of single-file sets.
Oracle: M-EQ between M-REF with inlining semantics and M-SSB of the real compilation; files opened by the real compiler
(observed with a sys.addaudithook on `open`) = files my resolver predicts from the documented rules."""
from __future__ import annotations

import os
import random
import sys

from vf import monitors, norm
from vf.common import shard_seeds, gsig, compare_lts
from vf.esast import ref_lts, RefError
from vf.lts import ssb_lts, MalformedSsb, count_paths
from vf.macrogen import macro_workload, make_layout, permutations_of_single_file

LEVEL = "translation_validation"
ASSUMPTIONS = [
    "M-REF inlines a call: parameters substituted, `return` leaves the macro only, labels private per expansion",
    "macro names are unique over all files of a layout (the specification does not define name clashes), except for the lookup "
    "shadowing layouts where only the first lookup directory may be read",
    "macro parameters that are used where the grammar wants a number are only given numbers / constants by the generator",
]
_OPENED = []
_HOOK = [False]


def _install_hook():
    if _HOOK[0]:
        return
    _HOOK[0] = True

    def hook(event, args):
        if event == "open" and args and isinstance(args[0], str) and args[0].endswith(".exps"):
            _OPENED.append(args[0])

    sys.addaudithook(hook)


def shards(tier, seed):
    out = []
    for s in shard_seeds(seed, 12, "C05"):
        out.append({"kind": "layouts", "seed": s, "n": 28 if tier == "quick" else 700})
    for s in shard_seeds(seed, 4, "C05p"):
        out.append({"kind": "permutations", "seed": s, "n": 3 if tier == "quick" else 60})
    return out


def check_layout(acc, lay, name, rnd, check_files=True, sample=False):
    from explorerscript.error import ParseError, SsbCompilerError

    with lay:
        inp = {"name": name, "layout": lay.describe(), "texts": lay.texts(), "gen": getattr(lay, "gen", None)}
        acc.announce(name, inp)
        try:
            macros, read = lay.visible_macros(lay.main_key)
            ref = ref_lts(lay.files[lay.main_key], macros=macros)
        except (RefError, KeyError) as e:
            acc.count("generator_invalid")
            return None
        del _OPENED[:]
        monitors.drain()
        try:
            c = norm.compile_exps(lay.main_text, lay.main_path, lay.lookup)
        except (ParseError, SsbCompilerError, ValueError) as e:
            acc.violation(gsig("valid-macro-program-rejected", type(e).__name__, str(e)[:50]), {"error": str(e)[:300]}, inp)
            return None
        except Exception as e:
            acc.violation(gsig("compile-crashed", type(e).__name__), {"error": str(e)[:300]}, inp)
            return None
        opened = {os.path.realpath(p) for p in _OPENED}
        acc.count("compilations")
        acc.count("shape:" + lay.note.split(":")[0])
        try:
            got = ssb_lts(c.routine_ops)
        except MalformedSsb as e:
            acc.violation(gsig("malformed-output"), {"problem": str(e)}, inp)
            return c
        ncalls = sum(1 for m in c.source_map.collect_mappings__macros()) if c.source_map else 0
        acc.count("macro_ops", ncalls)
        paths = sum(count_paths(ref, s) for s in ref.starts if s is not None)
        acc.case(repr(sorted(lay.texts().items())), ncalls >= 1)
        for ri, sig, w in compare_lts(acc, ref, got, "C05", rnd=rnd):
            acc.violation(sig, dict(w, routine=ri), inp)
        if check_files:
            want = {os.path.realpath(os.path.join(lay.root, k)) for k in read}
            if opened != want:
                acc.violation(gsig("files-read-differ", "extra" if opened - want else "missing"),
                              {"unexpected": sorted(p[len(lay.root):] for p in opened - want), "not_read": sorted(p[len(lay.root):] for p in want - opened)}, inp)
            raw = [spec if kind != "abs" else os.path.join(lay.root, spec) for kind, spec in lay.files[lay.main_key]["imports"]]
            if list(c.imports) != raw:
                acc.violation("imports-attribute-differs", {"expected": raw, "got": list(c.imports)}, inp)
            for mname, m in macros.items():
                cm = c.macros.get(mname)
                wantp = os.path.realpath(os.path.join(lay.root, m[3]))
                if cm is None:
                    acc.violation("visible-macro-missing", {"macro": mname}, inp)
                elif os.path.realpath(cm.included__absolute_path or "") != wantp:
                    acc.violation(gsig("macro-file-differs"), {"macro": mname, "expected": wantp[len(lay.root):],
                                                                "got": str(cm.included__absolute_path)[len(lay.root):]}, inp)
            acc.count("file_sets_checked")
        if sample:
            acc.sample({"layout": lay.describe(), "main": lay.main_text[:900]})
        return c


def run_shard(shard, acc):
    monitors.install()
    _install_hook()
    rnd = random.Random(shard["seed"] ^ 5)
    if shard["kind"] == "layouts":
        for i, (name, lay) in enumerate(macro_workload(shard)):
            check_layout(acc, lay, name, rnd, sample=(i == 1))
        return
    for i in range(shard["n"]):
        base = make_layout(random.Random(rnd.randrange(1 << 40)), "single", nmacros=rnd.choice([3, 4, 4, 5]), rich=False)
        n = 0
        for lay in permutations_of_single_file(base, rnd, 120):
            check_layout(acc, lay, f"perm{i}_{n}", None, check_files=False)
            n += 1
            acc.count("definition_orders")


def summarize(agg, tier):
    c = agg["counters"]
    cov = {
        "programs": c.get("compilations", 0),
        "disagreements_checked": c.get("routines_compared", 0),
        "rule": "macro layouts (7 directory shapes) and every definition order of single-file macro sets; distinct by the texts of all "
                "files; non-trivial = the compilation contains at least one op that comes from a macro",
        "definition_orders": c.get("definition_orders", 0), "file_sets_checked": c.get("file_sets_checked", 0),
        "macro_ops": c.get("macro_ops", 0), "shapes": {k[6:]: v for k, v in c.items() if k.startswith("shape:")},
    }
    floors = []
    if c.get("compilations", 0) < 300 or c.get("definition_orders", 0) < 200:
        floors.append("too few compilations / definition orders")
    return cov, not floors, floors


def replay(inp, acc):
    """replays from the recorded file texts (layout on a fresh scratch tree); behaviour is compared against the first run only
    through the compile result, so the replay re-checks acceptance and the file set"""
    import tempfile, shutil
    from explorerscript.error import ParseError, SsbCompilerError
    monitors.install()
    _install_hook()
    if inp.get("gen"):
        g = inp["gen"]
        for name, lay in macro_workload({"seed": g["seed"], "n": g["n"], "rich": g.get("rich", True)}, only=g["index"]):
            check_layout(acc, lay, name, random.Random(0))
        return
    root = tempfile.mkdtemp(prefix="verif_c05r_")
    try:
        for k, t in inp["texts"].items():
            p = os.path.join(root, k)
            os.makedirs(os.path.dirname(p), exist_ok=True)
            with open(p, "w", encoding="utf-8") as f:
                f.write(t)
        lay = inp["layout"]
        try:
            norm.compile_exps(inp["texts"][lay["main"]], os.path.join(root, lay["main"]), [os.path.join(root, k) for k in lay["lookup"]])
            acc.case(repr(inp["texts"]), True)
        except Exception as e:
            acc.violation(gsig("valid-macro-program-rejected", type(e).__name__, str(e)[:50]), {"error": str(e)[:300]}, inp)
    finally:
        shutil.rmtree(root, ignore_errors=True)
