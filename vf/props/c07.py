"""C07 - SsbScript is a lossless spelling of SSB ops.
Workload: G-SSB arbitrary routine sets (unreachable ops, arbitrary opcode names incl. ExplorerScript keywords, several
jumps to one op, jumps between routines, empty routines, coroutines, targets by number and by name, G-VAL parameters)
and compiler-shaped sets. Oracle: positional normal form of SsbScriptSsbCompiler(SsbScriptSsbDecompiler(x)) == x."""
from __future__ import annotations

import random

from vf import monitors, norm
from vf.common import exps_workload, shard_seeds, gsig, try_compile, safe_decompile, tup
from vf.esast import print_program
from vf.ssbgen import random_ssb

LEVEL = "translation_validation"
ASSUMPTIONS = ["normal form: opcode, canonical parameter keys (position mark names included), jump targets as (routine, index)",
               "jump-carrying ops are generated with their canonical parameter count (target last), as a binary reader delivers them"]


def shards(tier, seed):
    out = []
    for s in shard_seeds(seed, 12, "C07"):
        out.append({"kind": "random_ssb", "seed": s, "n": 150 if tier == "quick" else 4000})
    for s in shard_seeds(seed, 4, "C07c"):
        out.append({"kind": "compiled", "seed": s, "n": 60 if tier == "quick" else 1500})
    return out


def half_tile(pos):
    """position-mark offsets 2 and 4 both denote the half-tile offset (docs/source_maps.rst): identified"""
    def f(p):
        if isinstance(p, tuple) and p and p[0] == "pos":
            return ("pos", p[1], 2 if p[2] in (2, 4) else p[2], 2 if p[3] in (2, 4) else p[3], p[4], p[5])
        return p
    return [[(n, tuple(f(p) for p in ps)) for n, ps in r] for r in pos]


_USED = [None, 0]


class UsedObjectRaised(Exception):
    pass


def _compile_on_used_object(text):
    from explorerscript.ssb_script.ssb_converting.ssb_compiler import SsbScriptSsbCompiler

    if _USED[0] is None:
        _USED[0] = SsbScriptSsbCompiler()
    c = _USED[0]
    if _USED[1] % 3 == 0:
        try:
            c.compile("def 0 {\n    Oops(;\n}\n")
        except Exception:
            pass
    _USED[1] += 1
    try:
        c.compile(text)
    except Exception as e:
        raise UsedObjectRaised(type(e).__name__, str(e)[:200])
    return c


def big_spec(r, ncases):
    """a dispatch table: one switch, many cases, each with its own handler (more than a hundred labels in one file)"""
    ops = [(0, "Switch", [("const", "$V")])]
    n = 1
    heads = []
    for k in range(ncases):
        heads.append(n)
        ops.append([n, "Case", [("int", k), None]])
        n += 1
    ops.append([n, "Jump", [None]])
    endjump = len(ops) - 1
    n += 1
    for k in range(ncases):
        ops[1 + k][2][1] = ("int", n)
        ops.append((n, f"handler_{k}", [("int", k)]))
        n += 1
        ops.append([n, "Jump", [None]])
        n += 1
    ops.append((n, "End", []))
    for o in ops:
        if isinstance(o, list) and o[1] == "Jump":
            o[2][0] = ("int", n)
    return {"routines": [{"kind": "GENERIC", "target": None, "name": None, "ops": [tuple(o) if isinstance(o, list) else o for o in ops]}]}


def roundtrip(acc, infos, ops, named, inp):
    before = half_tile(norm.positional(ops))
    binfo = norm.infos(infos, named)
    acc.announce("c07", inp)
    monitors.drain()
    try:
        # the decompiler gets the caller's own objects: the round trip is judged against the routine set as it is afterwards, too
        text, sm = norm.decompile_ssbs(infos, ops, named, deep=False)
    except Exception as e:
        acc.violation(gsig("ssbs-decompile-raised", type(e).__name__, str(e)[:40]), {"error": str(e)[:200]}, inp)
        return
    if half_tile(norm.positional(ops)) != before or norm.infos(infos, named) != binfo:
        acc.violation(gsig("routine-set-changed-by-decompiling-it"), {"note": "the ops handed to the decompiler differ after the call"}, inp)
        return
    from explorerscript.error import ParseError, SsbCompilerError
    try:
        c = norm.compile_ssbs(text)
        # a compiler object that was used before (also on a text with a syntax error) has to give the same
        again = _compile_on_used_object(text)
        if again is not None and (half_tile(norm.positional(again.routine_ops)) != half_tile(norm.positional(c.routine_ops))
                                  or norm.infos(again.routine_infos, again.named_coroutines) != norm.infos(c.routine_infos, c.named_coroutines)):
            acc.violation(gsig("used-compiler-object-compiles-differently"), {"uses_before": _USED[1]}, dict(inp, text=text))
            return
    except UsedObjectRaised as e:
        acc.violation(gsig("used-compiler-object-rejects-the-text", e.args[0]), {"error": e.args[1], "uses_before": _USED[1]}, dict(inp, text=text))
        return
    except (ParseError, SsbCompilerError, ValueError) as e:
        acc.violation(gsig("ssbs-text-rejected", type(e).__name__), {"error": str(e)[:200], "text": text[:1500]}, dict(inp, text=text))
        return
    except Exception as e:
        acc.violation(gsig("ssbs-compile-crashed", type(e).__name__), {"error": str(e)[:200], "text": text[:1500]}, dict(inp, text=text))
        return
    after = half_tile(norm.positional(c.routine_ops))
    ainfo = norm.infos(c.routine_infos, c.named_coroutines)
    acc.count("roundtrips")
    nops = sum(len(r) for r in before)
    acc.count("ops_compared", nops)
    if binfo != ainfo:
        acc.violation(gsig("routine-table-differs"), {"before": binfo, "after": ainfo}, dict(inp, text=text))
    if before != after:
        diff = None
        if [len(r) for r in before] != [len(r) for r in after]:
            diff = ("shape", [len(r) for r in before], [len(r) for r in after])
            sig = gsig("ops-differ", "shape")
        else:
            for ri, (ra, rb) in enumerate(zip(before, after)):
                for oi, (a, b) in enumerate(zip(ra, rb)):
                    if a != b:
                        diff = (ri, oi, a, b)
                        break
                if diff:
                    break
            a, b = diff[2], diff[3]
            if a[0] != b[0]:
                sig = gsig("ops-differ", "opcode")
            elif len(a[1]) != len(b[1]):
                sig = gsig("ops-differ", "param-count", a[0])
            else:
                pi = next(i for i, (x, y) in enumerate(zip(a[1], b[1])) if x != y)
                sig = gsig("ops-differ", "param", a[1][pi][0])
                diff = (ri, oi, a[0], pi, a[1][pi], b[1][pi])
        acc.violation(sig, {"first_difference": diff}, dict(inp, text=text))
    for m in monitors.drain():
        if m["prop"] in ("C03", "C06", "C09", "C11"):
            acc.count("other_monitor_fired:" + m["prop"])
    return text


def run_shard(shard, acc):
    monitors.install()
    rnd = random.Random(shard["seed"])
    norm.SHUFFLE_COROUTINES[0] = random.Random(shard["seed"] ^ 77)
    if shard["kind"] == "random_ssb":
        # long routines with many labels (label tables, caches and counters have sizes)
        for ncases in (rnd.choice([130, 150, 200]), rnd.choice([300, 520])):
            spec = big_spec(rnd, ncases)
            infos, ops, named = norm.make_ops(spec)
            roundtrip(acc, infos, ops, named, {"spec": spec})
            acc.count("big_sets")
            spec = random_ssb(rnd, hostile=0.0, max_routines=3, max_ops=250)
            infos, ops, named = norm.make_ops(spec)
            roundtrip(acc, infos, ops, named, {"spec": spec})
            acc.count("big_sets")
        for i in range(shard["n"]):
            hostile = rnd.choice([0.0, 0.0, 0.3, 1.0])
            spec = random_ssb(rnd, hostile=hostile)
            if i % 5 == 0 and len(spec["routines"]) > 1:
                # coroutines between routines of the other kinds
                for k, r in enumerate(spec["routines"]):
                    if rnd.random() < 0.5:
                        r["kind"], r["name"], r["target"] = "COROUTINE", f"CORO_{k}", None
                    elif r["kind"] == "COROUTINE":
                        r["kind"], r["name"], r["target"] = "GENERIC", None, None
                acc.count("sets_mixing_coroutines_and_routines")
            infos, ops, named = norm.make_ops(spec)
            text = roundtrip(acc, infos, ops, named, {"spec": spec})
            nj = sum(1 for r in spec["routines"] for o in r["ops"] if o[1] in ("Jump", "Call") or o[1].startswith(("Branch", "Case")))
            acc.case(repr(spec), nj >= 1)
            acc.count("random_sets")
            if i < 1 and text:
                acc.sample({"spec": spec, "ssbscript": text[:800]})
        return
    for i, (name, prog) in enumerate(exps_workload({"kind": "random", "seed": shard["seed"], "n": shard["n"], "depth": 2})):
        c = try_compile(print_program(prog).text, acc)
        if c is None:
            continue
        gaps = rnd.choice([None, None, lambda: rnd.randint(1, 3)])
        ops, _ = norm.renumber(c.routine_ops, start=rnd.choice([0, 1]), gap=gaps)
        spec = norm.spec_of(c.routine_infos, ops, c.named_coroutines)
        roundtrip(acc, c.routine_infos, ops, c.named_coroutines, {"spec": spec})
        acc.case(repr(spec), True)
        acc.count("compiled_sets")


def summarize(agg, tier):
    c = agg["counters"]
    cov = {
        "programs": max(c.get("roundtrips", 0), c.get("random_sets", 0) + c.get("compiled_sets", 0) + c.get("big_sets", 0)),
        "roundtrips_completed": c.get("roundtrips", 0),
        "disagreements_checked": c.get("ops_compared", 0),
        "rule": "random SSB routine sets and renumbered compiler outputs; distinct by description; non-trivial = contains a jump-carrying op; "
                "each set is spelled as SsbScript by the real decompiler and compiled back by the real SsbScript compiler",
        "random_sets": c.get("random_sets", 0), "compiled_sets": c.get("compiled_sets", 0),
    }
    floors = []
    if c.get("roundtrips", 0) < 500:
        floors.append("fewer than 500 round trips")
    return cov, not floors, floors


def replay(inp, acc):
    monitors.install()
    spec = norm.spec_from_json(inp["spec"]) if isinstance(inp["spec"]["routines"][0]["ops"][0] if inp["spec"]["routines"] and inp["spec"]["routines"][0]["ops"] else [], list) else inp["spec"]
    infos, ops, named = norm.make_ops(spec)
    roundtrip(acc, infos, ops, named, {"spec": inp["spec"]})
    acc.case(repr(inp["spec"]), True)
