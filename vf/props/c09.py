"""C09 - decompile-time source map points at the statement printed for each op.
Workload G-SSB (compiler-shaped with multi-line strings at every nesting depth, flat, catalogue, random flow graphs for
the fallback output); both decompilers. Oracle over the recorded (text, map) of the real convert():
 (a) every key is the offset of an input op (K-DECOMPILE),
 (b) the text at (line, column) is the beginning of the statement printed for that op - identified on the parse tree (T2A)
     for ExplorerScript output, by the opcode spelling for SsbScript output,
 (c) every op that is printed as its own statement has an entry,
 (d) compiling the emitted text places the corresponding op on the same line (ops paired by the product monitor)."""
from __future__ import annotations

import random

from vf import monitors, norm, t2a
from vf.common import shard_seeds, gsig
from vf.decomp import ssb_workload, decompile_once, well_formed_problem, dm_tol
from vf.env import DM_NAMES
from vf.esast import ref_lts, RefError
from vf.lts import ssb_lts, equiv, pkey, JUMP_IDX, CTX_OPS, MalformedSsb
from vf.props.c02 import canon_dm_ops

LEVEL = "exploration"
ASSUMPTIONS = [
    "a map position may be the closing brace that shares the line with `elseif` (the statement printed for an elseif test "
    "begins at `} elseif`)",
    "ops are paired with recompiled ops by the lock-step product of the two SSB machines (only when they are equivalent)",
    "parameter equality up to the C04 tolerances (dungeon-mode constants, half-tile offsets)",
]
KEYWORD = {"Return": "return", "End": "end", "Hold": "hold"}


def shards(tier, seed):
    q = tier == "quick"
    out = [{"kind": "catalogue", "seed": seed}, {"kind": "handbuilt", "seed": seed}]
    for s in shard_seeds(seed, 8, "C09a"):
        out.append({"kind": "compiled", "seed": s, "n": 90 if q else 1000, "depth": 3, "cfg": {"labels": False}})
    for s in shard_seeds(seed, 3, "C09f"):
        out.append({"kind": "flat", "seed": s, "n": 40 if q else 1000})
    for s in shard_seeds(seed, 2, "C09u"):
        out.append({"kind": "compiled", "seed": s, "n": 40 if q else 1000, "depth": 2, "unstructured": True})
    for s in shard_seeds(seed, 2, "C09c"):
        out.append({"kind": "cfg", "seed": s, "n": 80 if q else 2000, "hostile": 0.0, "unstructured": True})
    return out


def sig_of_op(op):
    name = op.op_code.name
    ps = [pkey(p) for p in op.params]
    if name in JUMP_IDX and len(ps) > JUMP_IDX[name]:
        del ps[JUMP_IDX[name]]
    return (name, tuple(ps))


def _dm(sig):
    """dungeon-mode tolerance on a signature"""
    if sig[0] == "flag_SetDungeonMode" and len(sig[1]) == 2 and sig[1][1][0] == "int" and 0 <= sig[1][1][1] <= 3:
        return (sig[0], (sig[1][0], ("const", DM_NAMES[sig[1][1][1]])))
    return sig


def stmt_matches(node, op, under_dm=False):
    """does the parsed statement `node` print the op?"""
    want = _dm(sig_of_op(op))
    k = node[0]
    name = op.op_code.name
    if k == "op":
        if name in CTX_OPS:
            return node[3] is not None and (CTX_OPS[name], tuple([pkey(node[3][1])])) == (node[3][0], want[1])
        return (node[1], tuple(pkey(p) for p in node[2])) == want
    if k == "asg":
        return _dm((node[1][0], tuple(pkey(p) for p in node[1][1]))) == want
    if k == "ctrl":
        return KEYWORD.get(name) == node[1] or (name == "Jump" and node[1] in ("continue", "break_loop", "break"))
    if k == "with":
        if name in CTX_OPS:
            return (CTX_OPS[name], (pkey(node[2]),)) == (node[1], want[1])
        return False
    if k == "msgswitch":
        return (node[1], (pkey(node[2]),)) == want
    if k == "jump":
        return name == "Jump"
    if k == "call":
        return name == "Call"
    if k == "forever":
        return False
    return False


def _first_event(l, n):
    """what happens first from node n on (silent steps skipped): (kind, opcode name, the non-string parameters)"""
    try:
        r = l.resolve(n)
    except KeyError:
        return None
    if r is None:
        return None
    node = l.nodes[r]
    if node[0] == "stop":
        return ("stop",)
    name = node[1][0]
    # (strings: K01; `a == b`: K03; dungeon mode numbers may be constants)
    ps = tuple(p for p in node[1][1] if p[0] in ("int", "const", "fp"))
    if name in ("flag_SetDungeonMode", "Case", "BranchValue", "Branch"):
        ps = ()
    return (node[0], "Branch" if name == "BranchValue" else name, ps)


class JumpTargets:
    """For a Jump op of the input and a jump / continue / break statement of the emitted text: do both lead to the same thing?"""

    def __init__(self, prog, ops):
        self.ok = False
        try:
            self.ref = ref_lts(prog)
            self.inp = ssb_lts(ops)
            self.by_src = {m.get("src"): n for n, m in self.ref.meta.items() if m.get("src") is not None and self.ref.nodes.get(n, ("",))[0] == "tau"}
            self.ok = True
        except (RefError, MalformedSsb, KeyError, RecursionError):
            pass

    def same(self, stmt, off):
        if not self.ok:
            return None
        n = self.by_src.get(id(stmt))
        if n is None or off not in self.inp.nodes or self.inp.nodes[off][0] != "tau":
            return None
        a, b = _first_event(self.ref, n), _first_event(self.inp, off)
        if a is None or b is None:
            return None
        return a == b, a, b


def check_exps(acc, text, sm, ops, inp):
    """(b) and (c) for ExplorerScript output"""
    lines = text.split("\n")
    byoff = {op.offset: op for r in ops for op in r}
    try:
        pos = t2a.Pos()
        prog = t2a.parse_program(text, pos)
    except Exception as e:
        acc.count("text_does_not_parse")
        return
    at = {}
    for n in pos.order:
        at.setdefault(pos.stmt_pos[id(n)], []).append(n)
    hdr_at = {}
    for key, p in pos.hdr_pos.items():
        hdr_at.setdefault(p, []).append(key)
    nodes = {id(n): n for n in pos.order}
    covered = set()
    jt = None
    for off, m in sm:
        op = byoff.get(off)
        if op is None:
            continue
        p = (m.line, m.column)
        acc.count("entries_checked")
        if m.line >= len(lines):
            acc.violation(gsig("position-outside-text"), {"offset": off, "pos": p}, inp)
            return
        ln = lines[m.line]
        indent = len(ln) - len(ln.lstrip(" "))
        name = op.op_code.name
        if m.column != indent:
            acc.violation(gsig("column-not-at-statement-start", name), {"offset": off, "pos": p, "line": ln[:80]}, inp)
            return
        rest = ln[m.column:]
        ok = False
        cands = list(at.get(p, []))
        if rest.startswith("} elseif") or rest.startswith("} else"):
            # the elseif header shares the line with the closing brace
            for (nid, *k), hp in pos.hdr_pos.items():
                if k and k[0] == "elseif" and hp[0] == m.line:
                    cands.append(("elseif", nodes[nid], k[1]))
        for n in cands:
            if n[0] == "elseif":
                _, ifn, bi = n
                neg, conds, _b = ifn[1][bi]
                if name.startswith("Branch") and any((c[0], tuple(pkey(x) for x in c[1])) == sig_of_op(op) for c in conds):
                    ok = True
                    covered.add((id(ifn), "br", bi))
                continue
            if n[0] == "if" and name.startswith("Branch"):
                neg, conds, _b = n[1][0]
                if any((c[0], tuple(pkey(x) for x in c[1])) == sig_of_op(op) for c in conds):
                    ok = True
                    covered.add((id(n), "br", 0))
            elif n[0] == "switch" and (n[1][0], tuple(pkey(x) for x in n[1][1])) == sig_of_op(op):
                ok = True
                covered.add(id(n))
            elif n[0] in ("while", "for"):
                ok = False
            elif stmt_matches(n, op):
                ok = True
                covered.add(id(n))
                if name == "Jump" and (n[0] == "jump" or n[0] == "ctrl"):
                    # the statement printed for a Jump op leads where the op leads
                    if jt is None:
                        jt = JumpTargets(prog, ops)
                    res = jt.same(n, off)
                    if res is None:
                        acc.count("jump_entries_target_not_comparable")
                    else:
                        acc.count("jump_entries_target_compared")
                        if not res[0]:
                            acc.violation(gsig("jump-entry-at-a-statement-that-leads-elsewhere"),
                                          {"offset": off, "pos": p, "text_there": rest[:60], "statement_leads_to": repr(res[1])[:120], "op_leads_to": repr(res[2])[:120]}, inp)
                            return
                if n[0] == "with" and stmt_matches(n[3], op):
                    covered.add(id(n[3]))
        if not ok:
            # case / message-switch case headers
            for key in hdr_at.get(p, []):
                nid, *k = key
                n = nodes.get(nid)
                if n is None or len(k) != 2 or k[0] == "elseif":
                    continue
                ci = k[0]
                if n[0] == "switch" and ci >= 0 and n[2][ci][0][0] == "case":
                    hs = n[2][ci][0][1]
                    got = (hs[0], tuple(pkey(x) for x in hs[1]))
                    want = sig_of_op(op)
                    if got == want or (got[0] == "CaseValue" and want[0] == "CaseScenario" and got[1] == want[1]) or \
                            (n[1][0] == "SwitchDungeonMode" and want[0] == "Case" and want[1][0][0] == "int" and 0 <= want[1][0][1] <= 3
                             and got == ("Case", (("const", DM_NAMES[want[1][0][1]]),))):
                        ok = True
                        covered.add((nid, "case", ci))
                elif n[0] == "msgswitch":
                    h, sp = n[3][ci]
                    if h[0] == "case" and name == "CaseText" and (pkey(h[1]), pkey(sp)) == sig_of_op(op)[1]:
                        ok = True
                    if h[0] == "default" and name == "DefaultText" and (pkey(sp),) == sig_of_op(op)[1]:
                        ok = True
                    if ok:
                        covered.add((nid, "case", ci))
        if not ok:
            acc.violation(gsig("entry-not-at-the-statement-of-the-op", name),
                          {"offset": off, "op": [name, [repr(x) for x in sig_of_op(op)[1]]], "pos": p, "text_there": rest[:80]}, inp)
            return
    # (c) every op printed as its own statement has an entry
    for n in pos.order:
        k = n[0]
        own = k in ("op", "asg", "msgswitch", "switch") or (k == "ctrl" and n[1] in ("end", "hold"))
        if own and id(n) not in covered:
            if k == "op" and any(id(w) in covered for w in pos.order if w[0] == "with" and w[3] is n):
                continue
            acc.violation(gsig("statement-without-entry", k), {"statement": repr(n)[:160], "pos": pos.stmt_pos[id(n)]}, inp)
            return
        if k == "if":
            for bi in range(len(n[1])):
                if (id(n), "br", bi) not in covered:
                    acc.violation(gsig("statement-without-entry", "if-header"), {"branch": bi, "pos": pos.stmt_pos[id(n)]}, inp)
                    return
        if k == "switch":
            for ci, (h, _b) in enumerate(n[2]):
                if h[0] == "case" and (id(n), "case", ci) not in covered:
                    acc.violation(gsig("statement-without-entry", "case-header"), {"case": ci, "pos": pos.stmt_pos[id(n)]}, inp)
                    return
    acc.count("texts_fully_checked")


def check_ssbs(acc, text, sm, ops, inp):
    lines = text.split("\n")
    byoff = {op.offset: op for r in ops for op in r}
    seen = set()
    for off, m in sm:
        op = byoff.get(off)
        if op is None:
            continue
        acc.count("entries_checked")
        if m.line >= len(lines):
            acc.violation(gsig("position-outside-text", "ssbs"), {"offset": off}, inp)
            return
        ln = lines[m.line]
        if m.column != len(ln) - len(ln.lstrip(" ")) or not ln[m.column:].startswith(op.op_code.name + "("):
            acc.violation(gsig("entry-not-at-the-statement-of-the-op", "ssbs"),
                          {"offset": off, "op": op.op_code.name, "pos": (m.line, m.column), "text_there": ln[:80]}, inp)
            return
        seen.add(off)
    missing = [o for o in byoff if o not in seen]
    if missing:
        acc.violation(gsig("statement-without-entry", "ssbs"), {"offsets": missing[:5]}, inp)
        return
    acc.count("texts_fully_checked")


def check_recompile(acc, text, sm, ops, inp, fallback):
    from explorerscript.error import ParseError, SsbCompilerError
    try:
        c2 = norm.compile_exps(text)
    except Exception:
        acc.count("recompile_failed(C02)")
        return
    try:
        a = ssb_lts(canon_dm_ops(ops))
        b = ssb_lts(canon_dm_ops(c2.routine_ops))
    except MalformedSsb:
        return
    dec = {off: m.line for off, m in sm}
    for sa, sb in zip(a.starts, b.starts):
        if sa is None or sb is None:
            continue
        e = equiv(a, sa, b, sb, tol=dm_tol)
        if not e.ok:
            acc.count("pairing_unavailable_not_equivalent(C02)")
            return
        for na, nb in e.pairing:
            oa = a.meta.get(na, {}).get("offset")
            ob = b.meta.get(nb, {}).get("offset")
            if oa is None or ob is None or oa not in dec:
                continue
            cm = c2.source_map.get_op_line_and_col(ob)
            acc.count("recompile_pairs_checked")
            if cm is None or cm.line != dec[oa]:
                acc.violation(gsig("recompiled-op-on-another-line", a.nodes[na][1][0]),
                              {"input_offset": oa, "decompile_line": dec[oa], "compile_line": None if cm is None else cm.line}, inp)
                return


def check(acc, name, infos, ops, named, meta, sample=False):
    if well_formed_problem(ops) is not None:
        return
    spec = norm.spec_of(infos, ops, named)
    for which in ("exps", "ssbs"):
        inp = {"name": name, "spec": spec, "which": which, "kind": meta.get("kind"), "unstructured": bool(meta.get("unstructured"))}
        acc.announce(name, inp)
        d = decompile_once(acc, infos, ops, named, which, seconds=20)
        if d.timeout or d.exc is not None:
            acc.count("no_answer(C06)")
            continue
        acc.count("maps:" + which + (":fallback" if d.fallback else ""))
        inp["text"] = d.text
        nml = sum(1 for l in d.text.split("\n") if l.strip() in ("'''", '"""') or l.rstrip().endswith(('"""', "'''")))
        acc.count("multiline_literal_lines", nml)
        acc.case(repr((which, spec)), len(list(d.sm)) >= 2)
        for m in d.monitor_log:
            if m["prop"] == "C09":
                acc.violation(gsig(m["sig"]), m["witness"], inp)
        before = acc.viol_total
        if which == "ssbs" or d.fallback:
            check_ssbs(acc, d.text, d.sm, ops, inp)
            if which == "ssbs" and acc.viol_total == before:
                # the same decompiler object asked twice: same text, and the second map is as good as the first
                try:
                    import copy
                    from explorerscript.ssb_script.ssb_converting.ssb_decompiler import SsbScriptSsbDecompiler
                    obj = SsbScriptSsbDecompiler(infos, copy.deepcopy(ops), norm.coroutines(named))
                    obj.convert()
                    t2, sm2 = obj.convert()
                    acc.count("second_convert_on_the_same_object")
                    if t2 == d.text:
                        check_ssbs(acc, t2, sm2, ops, dict(inp, second_convert=True))
                except Exception:
                    acc.count("second_convert_raised(C06)")
        else:
            check_exps(acc, d.text, d.sm, ops, inp)
        if acc.viol_total == before and which == "exps":
            check_recompile(acc, d.text, d.sm, ops, inp, d.fallback)
        if sample and which == "exps":
            acc.sample({"text": d.text[:600], "map": sorted((k, (v.line, v.column)) for k, v in d.sm)[:14]})


def run_shard(shard, acc):
    monitors.install()
    n = 0
    for name, infos, ops, named, meta in ssb_workload(shard):
        meta["unstructured"] = bool(shard.get("unstructured"))
        check(acc, name, infos, ops, named, meta, sample=(n == 1))
        n += 1


def summarize(agg, tier):
    c = agg["counters"]
    cov = {
        "rule": "well-formed SSB routine sets x both decompilers; distinct by (decompiler, description); non-trivial = map with >= 2 entries",
        "entries_checked": c.get("entries_checked", 0), "texts_fully_checked": c.get("texts_fully_checked", 0),
        "recompile_pairs_checked": c.get("recompile_pairs_checked", 0),
        "maps": {k[5:]: v for k, v in c.items() if k.startswith("maps:")},
        "multiline_literal_lines_in_texts": c.get("multiline_literal_lines", 0),
    }
    floors = []
    if c.get("entries_checked", 0) < 2000 or c.get("recompile_pairs_checked", 0) < 500:
        floors.append("too few entries / recompile pairs checked")
    if c.get("maps:exps:fallback", 0) == 0:
        floors.append("fallback output never observed")
    return cov, not floors, floors


def replay(inp, acc):
    monitors.install()
    infos, ops, named = norm.make_ops(norm.spec_from_json(inp["spec"]))
    check(acc, inp.get("name"), infos, ops, named, {"kind": inp.get("kind"), "unstructured": inp.get("unstructured")})
