"""C02 - decompiled source denotes the input routines; recompiling preserves behaviour.
Workload G-SSB (compiler-shaped, re-laid-out, CFG-shaped, special opcodes; all well-formed).
Oracle on every structured (non-fallback) answer of the real decompiler:
 (i)  the text is accepted by the real compiler,
 (ii) M-EQ: M-SSB(input) vs M-REF(T2A(text))   - the text read according to the language specification,
 (iii) M-EQ: M-SSB(input) vs M-SSB(compile(text)) - the corollary,
 (iv) routine ids, kinds, targets, coroutine names equal."""
from __future__ import annotations

import copy
import random

from vf import monitors, norm, t2a
from vf.common import shard_seeds, gsig, compare_lts
from vf.decomp import ssb_workload, decompile_once, well_formed_problem, dm_tol
from vf.env import DM_NAMES
from vf.esast import ref_lts, RefError
from vf.lts import ssb_lts, MalformedSsb, count_paths

LEVEL = "translation_validation"
ASSUMPTIONS = [
    "M-REF / T2A / M-SSB as for C01; T2A trusts the repo's grammar for the shape of the parse tree of emitted text",
    "tolerances of the property text: dungeon-mode 0..3 <-> configured constant (flag_SetDungeonMode value, Case under "
    "SwitchDungeonMode); unreachable ops may vanish; fallback answers are C06's business",
    "compiler-shaped inputs are made well-formed by appending a Return to routines that would run off their end",
]


def shards(tier, seed):
    q = tier == "quick"
    out = [{"kind": "catalogue", "seed": seed}, {"kind": "handbuilt", "seed": seed}]
    structured = {"labels": False}
    for s in shard_seeds(seed, 6, "C02a"):
        out.append({"kind": "compiled", "seed": s, "n": 130 if q else 1200, "depth": 2, "cfg": dict(structured)})
    for s in shard_seeds(seed, 2, "C02f"):
        out.append({"kind": "flat", "seed": s, "n": 100 if q else 1200})
    # other layouts of the flow graphs of label-free programs: strict as well (a survey of 1000 such inputs on the unchanged tree
    # found one mismatch, which is K07)
    for s in shard_seeds(seed, 3, "C02b"):
        out.append({"kind": "relaid", "seed": s, "n": 130 if q else 1200, "depth": 2, "cfg": dict(structured)})
    # unstructured classes: judged as well, but mis-structuring there is the open finding K05 (see DESIGN.md)
    for s in shard_seeds(seed, 2, "C02u"):
        out.append({"kind": "compiled", "seed": s, "n": 40 if q else 1000, "depth": 2, "unstructured": True})
    for s in shard_seeds(seed, 1, "C02v"):
        out.append({"kind": "relaid", "seed": s, "n": 40 if q else 1000, "depth": 2, "unstructured": True})
    for s in shard_seeds(seed, 1, "C02c"):
        out.append({"kind": "cfg", "seed": s, "n": 100 if q else 2500, "unstructured": True})
    for s in shard_seeds(seed, 1, "C02d"):
        out.append({"kind": "special", "seed": s, "n": 100 if q else 2500, "unstructured": True})
    return out


def canon_dm_ops(routine_ops):
    """Case under SwitchDungeonMode: 0..3 -> the configured constant (both sides of the comparison)."""
    from explorerscript.ssb_converting.ssb_data_types import SsbOpParamConstant

    ops = copy.deepcopy(routine_ops)
    for r in ops:
        under = False
        for op in r:
            n = op.op_code.name
            if n == "SwitchDungeonMode":
                under = True
            elif under and n == "Case":
                if op.params and isinstance(op.params[0], int) and 0 <= op.params[0] <= 3:
                    op.params[0] = SsbOpParamConstant(DM_NAMES[op.params[0]])
            elif not n.startswith("Case"):
                under = False
    return ops


def canon_dm_ast(prog):
    def walk(ss):
        out = []
        for s in ss:
            k = s[0]
            if k == "if":
                s = ("if", [(n, c, walk(b)) for n, c, b in s[1]], None if s[2] is None else walk(s[2]))
            elif k == "switch":
                cases = []
                for h, b in s[2]:
                    if s[1][0] == "SwitchDungeonMode" and h[0] == "case" and h[1][0] == "Case" and h[1][1][0][0] == "int" \
                            and 0 <= h[1][1][0][1] <= 3:
                        h = ("case", ("Case", (("const", DM_NAMES[h[1][1][0][1]]),)))
                    cases.append((h, walk(b)))
                s = ("switch", s[1], cases)
            elif k == "forever":
                s = ("forever", walk(s[1]))
            elif k == "while":
                s = ("while", s[1], s[2], walk(s[3]))
            elif k == "for":
                s = ("for", s[1], s[2], s[3], walk(s[4]))
            out.append(s)
        return out

    return dict(prog, routines=[(h, None if b is None else walk(b)) for h, b in prog["routines"]],
                macros=[(m[0], m[1], walk(m[2])) for m in prog.get("macros", [])])


def check(acc, name, infos, ops, named, meta, rnd, sample=False):
    from explorerscript.error import ParseError, SsbCompilerError

    inp = {"name": name, "spec": norm.spec_of(infos, ops, named), "kind": meta.get("kind"), "unstructured": bool(meta.get("unstructured"))}
    if well_formed_problem(ops) is not None:
        acc.count("skipped_not_well_formed")
        return
    acc.announce(name, inp)
    d = decompile_once(acc, infos, ops, named, "exps", seconds=20)
    acc.count("convert_calls")
    if d.timeout or d.exc is not None:
        acc.count("no_answer(C06)")
        return
    if d.fallback:
        acc.count("fallback_answers(C06)")
        return
    acc.count("structured_answers")
    acc.count("kind:" + str(meta.get("kind")))
    inp["text"] = d.text
    a = ssb_lts(canon_dm_ops(ops))
    paths = sum(count_paths(a, s) for s in a.starts if s is not None)
    acc.case(repr(inp["spec"]), paths >= 2)
    # (i)
    try:
        c2 = norm.compile_exps(d.text)
    except (ParseError, SsbCompilerError, ValueError) as e:
        acc.violation(gsig("text-rejected", type(e).__name__, str(e)[:45]), {"error": str(e)[:300]}, inp)
        return
    except Exception as e:
        acc.violation(gsig("text-crashed-compiler", type(e).__name__), {"error": str(e)[:300]}, inp)
        return
    acc.count("texts_accepted")
    # (ii)
    try:
        p2 = canon_dm_ast(t2a.parse_program(d.text))
        r2 = ref_lts(p2)
        for ri, sig, w in compare_lts(acc, a, r2, "text-read-by-spec", tol=dm_tol, rnd=rnd):
            acc.violation(sig, dict(w, routine=ri, clause="ii"), inp)
            break
        else:
            acc.count("clause_ii_held")
    except (t2a.T2AError, RefError) as e:
        acc.violation(gsig("text-not-valid-by-spec", str(e)[:40]), {"error": str(e)}, inp)
    # (iii)
    try:
        b = ssb_lts(canon_dm_ops(c2.routine_ops))
        for ri, sig, w in compare_lts(acc, a, b, "recompiled", tol=dm_tol, rnd=rnd):
            acc.violation(sig, dict(w, routine=ri, clause="iii"), inp)
            break
        else:
            acc.count("clause_iii_held")
    except MalformedSsb as e:
        acc.violation(gsig("recompiled-malformed"), {"error": str(e)}, inp)
    # (iv)
    if norm.infos(infos, named) != norm.infos(c2.routine_infos, c2.named_coroutines):
        acc.violation("routine-table-differs", {"before": norm.infos(infos, named), "after": norm.infos(c2.routine_infos, c2.named_coroutines)}, inp)
    if sample:
        acc.sample({"kind": meta.get("kind"), "input_ops": inp["spec"]["routines"][0]["ops"][:14], "text": d.text[:700]})


def run_shard(shard, acc):
    monitors.install()
    rnd = random.Random(shard["seed"] ^ 2)
    n = 0
    for name, infos, ops, named, meta in ssb_workload(shard):
        meta["unstructured"] = bool(shard.get("unstructured"))
        if shard["kind"] == "catalogue":
            # the catalogue mixes structured shapes and shapes with user labels / jumps
            meta["unstructured"] = False
        acc.count("class:" + ("unstructured" if meta["unstructured"] else "structured"))
        check(acc, name, infos, ops, named, meta, rnd, sample=(n == 1))
        n += 1


def summarize(agg, tier):
    c = agg["counters"]
    cov = {
        "programs": c.get("structured_answers", 0),
        "disagreements_checked": c.get("routines_compared", 0),
        "rule": "well-formed SSB routine sets; every structured answer of the real decompiler is compiled again and compared with "
                "the input by the product monitor, both as read by the reference semantics and as recompiled; distinct by "
                "description; non-trivial = the input machine has >= 2 paths",
        "convert_calls": c.get("convert_calls", 0), "fallback_answers": c.get("fallback_answers(C06)", 0),
        "clause_ii_held": c.get("clause_ii_held", 0), "clause_iii_held": c.get("clause_iii_held", 0),
        "lts_pairs_explored": c.get("lts_pairs", 0),
        "by_kind": {k[5:]: v for k, v in c.items() if k.startswith("kind:")},
    }
    floors = []
    if c.get("structured_answers", 0) < 200:
        floors.append("fewer than 200 structured answers checked")
    return cov, not floors, floors


def replay(inp, acc):
    monitors.install()
    infos, ops, named = norm.make_ops(norm.spec_from_json(inp["spec"]))
    check(acc, inp.get("name"), infos, ops, named, {"kind": inp.get("kind"), "unstructured": inp.get("unstructured")}, random.Random(0))
