"""C08 - compile-time source map: every emitted op maps to where it was written.
Workload: G-EXPS programs (several statements per line / random layouts, the printer records every start position) and
G-MACRO layouts with nested calls across files.
Monitor K-COMPILE (totality) on every compilation + driver oracle: the lock-step pairing of M-REF and M-SSB tells, for every
observable compiled op, the statement / header (and macro expansion) that produced it; its entry is compared with the
position the printer recorded."""
from __future__ import annotations

import os
import random

from vf import monitors, norm
from vf.common import exps_workload, shard_seeds, gsig, std_shards, with_repeated_literals
from vf.esast import print_program, ref_lts, RefError, Style, Printer, render
from vf.lts import ssb_lts, equiv, MalformedSsb, has_silent_cycle, pkey
from vf.macrogen import macro_workload

LEVEL = "exploration"
ASSUMPTIONS = [
    "ops are attributed to statements by the lock-step product of M-REF and M-SSB (observable ops only); silent ops (inserted or "
    "user jumps) only have to point at the start of some statement / header of their file",
    "a case op may be mapped to the `case` keyword or to its header expression, a switch op to `switch` or to its header expression, a "
    "message-switch case to its case or to the message switch statement (all are 'where its ... header begins')",
    "for nested expansions the call position on a first op may be that of any expansion the op starts",
]


def shards(tier, seed):
    q = tier == "quick"
    out = std_shards("C08", tier, seed, 110, 1200, nshards=9, extra={"macro_share": 0.3})
    for s in shard_seeds(seed, 6, "C08m"):
        out.append({"kind": "macro", "seed": s, "n": 45 if q else 700})
    return out


def expected_positions(meta, r):
    """set of acceptable (line, col) for a reference node with the given meta in rendering r"""
    src, part = meta["src"], meta.get("part")
    pos = r.posall
    out = set()
    if part is None or part == "ctx":
        out |= pos.get(("stmt", src), set())
    elif part[0] == "hdr":
        _, bi, ci = part
        out |= pos.get(("hdr", src, bi, ci), set())
        # case header: also the header expression
        out |= pos.get(("hdrx", src, bi), set())
        if bi == -1:
            # switch header: also the `switch` keyword
            out |= pos.get(("stmt", src), set())
    return out


def check_compilation(acc, c, ref, renders, main_key, file_of_macro, rel_of, inp, rnd, macro_arg_marks=(), call_stmt_ids=frozenset()):
    """renders: key -> Rendered; file_of_macro: macro name -> key; rel_of: key -> relative path from the main file's directory"""
    sm = c.source_map
    try:
        got = ssb_lts(c.routine_ops)
    except MalformedSsb:
        return
    all_pos = {k: set().union(*r.posall.values()) if r.posall else set() for k, r in renders.items()}
    emitted = sorted(op.offset for rr in c.routine_ops for op in rr)
    paired = {}
    ok_all = True
    for sa, sb in zip(ref.starts, got.starts):
        if sa is None or sb is None:
            continue
        if has_silent_cycle(ref, sa):
            continue
        e = equiv(ref, sa, got, sb)
        if not e.ok:
            acc.count("not_equivalent(C01)")
            ok_all = False
            continue
        for na, nb in e.pairing:
            off = got.meta.get(nb, {}).get("offset")
            m = ref.meta.get(na)
            if off is not None and m is not None:
                paired.setdefault(off, m)
    acc.count("ops_paired", len(paired))
    # --- direct and macro entries of paired ops
    inst_offs = {}
    for off, m in paired.items():
        stack = m.get("stack", ())
        d = sm.get_op_line_and_col__direct(off)
        me = sm.get_op_line_and_col__macros(off)
        if not stack:
            acc.count("direct_entries_checked")
            if d is None:
                acc.violation(gsig("direct-op-without-direct-entry"), {"offset": off, "macro_entry": me is not None}, inp)
                return
            want = expected_positions(m, renders[main_key])
            if (d.line, d.column) not in want:
                acc.violation(gsig("direct-entry-position", m.get("part")[0] if m.get("part") else "stmt"),
                              {"offset": off, "got": (d.line, d.column), "expected_one_of": sorted(want)}, inp)
                return
        else:
            acc.count("macro_entries_checked")
            if me is None:
                acc.violation(gsig("macro-op-without-macro-entry"), {"offset": off}, inp)
                return
            mname = stack[-1][0]
            fkey = file_of_macro[mname]
            want_rel = None if fkey == main_key else rel_of[fkey]
            want = expected_positions(m, renders[fkey])
            if me.macro_name != mname:
                acc.violation(gsig("macro-entry-name"), {"offset": off, "expected": mname, "got": me.macro_name}, inp)
                return
            if me.relpath_included_file != want_rel:
                acc.violation(gsig("macro-entry-file"), {"offset": off, "expected": want_rel, "got": me.relpath_included_file}, inp)
                return
            if (me.line, me.column) not in want:
                acc.violation(gsig("macro-entry-position"), {"offset": off, "got": (me.line, me.column), "expected_one_of": sorted(want), "macro": mname}, inp)
                return
            for k in range(1, len(stack) + 1):
                inst_offs.setdefault(stack[:k], []).append(off)
    # --- silent / unpaired ops: entry must be the start of some statement or header
    for off in emitted:
        if off in paired:
            continue
        d = sm.get_op_line_and_col__direct(off)
        me = sm.get_op_line_and_col__macros(off)
        acc.count("unpaired_entries_checked")
        if d is not None:
            if ok_all and (d.line, d.column) not in all_pos[main_key]:
                acc.violation(gsig("unpaired-direct-entry-not-at-a-statement"), {"offset": off, "got": (d.line, d.column)}, inp)
                return
        elif me is not None:
            fkey = file_of_macro.get(me.macro_name)
            if fkey is None or (me.line, me.column) not in all_pos[fkey]:
                acc.violation(gsig("unpaired-macro-entry-not-at-a-statement"), {"offset": off, "got": (me.macro_name, me.line, me.column)}, inp)
                return
    # --- expansions: call position on the first op, return address
    if ok_all and inst_offs:
        mac_ret = {off: sm.get_op_line_and_col__macros(off) for off in emitted}
        all_call_positions = set()
        for key, r in renders.items():
            rel = None if key == main_key else rel_of.get(key)
            for mk, ps in r.posall.items():
                if mk[0] == "stmt" and mk[1] in call_stmt_ids:
                    all_call_positions |= {(rel,) + p for p in ps}
        idx = {o: i for i, o in enumerate(emitted)}
        starts_paired = {}
        for inst, offs in inst_offs.items():
            lo, hi = min(offs), max(offs)
            own = [o for o in offs if len(paired[o]["stack"]) == len(inst)]
            r = None
            if own:
                r = mac_ret[own[0]].return_addr
                if any(mac_ret[o].return_addr != r for o in own):
                    acc.violation(gsig("return-address-not-constant-in-expansion"), {"instance": [x[0] for x in inst]}, inp)
                    return
                # ops after the last paired op that still belong to the expansion: unpaired macro ops below the return address
                i = idx[hi]
                while i + 1 < len(emitted) and emitted[i + 1] not in paired and mac_ret[emitted[i + 1]] is not None \
                        and r is not None and emitted[i + 1] < r and (mac_ret[emitted[i + 1]].return_addr or 0) <= r:
                    i += 1
                hi2 = emitted[i]
                nxt = emitted[i + 1] if i + 1 < len(emitted) else None
                acc.count("expansions_checked")
                if r is None or not (r > hi and (nxt is None or r <= nxt)):
                    acc.violation(gsig("return-address-out-of-range"),
                                  {"instance": [x[0] for x in inst], "return_addr": r, "last_paired_op_of_expansion": hi,
                                   "last_op_counted_to_expansion": hi2, "next_op": nxt}, inp)
                    return
            # call position: on the first op of the expansion. Candidates: the first paired op and the unpaired macro ops directly before it
            cands = [lo]
            j = idx[lo]
            while j - 1 >= 0 and emitted[j - 1] not in paired and mac_ret[emitted[j - 1]] is not None:
                j -= 1
                cands.append(emitted[j])
            # the op can be the first op of several nested expansions (a macro whose body starts with a call): one entry, any of them
            wants = []
            for inst2, offs2 in inst_offs.items():
                if inst2[:len(inst)] == inst and min(offs2) == lo:
                    mname, call_id = inst2[-1]
                    caller_key = main_key if len(inst2) == 1 else file_of_macro[inst2[-2][0]]
                    wants += [(None if caller_key == main_key else rel_of[caller_key],) + p
                              for p in renders[caller_key].posall.get(("stmt", call_id), set())]
            acc.count("call_positions_checked")
            found = [o for o in cands if mac_ret[o].called_in is not None and tuple(mac_ret[o].called_in) in wants]
            if not found:
                # a nested expansion without observable ops starts the expansion: its call position (that of a macro call statement)
                found = [o for o in cands[1:] if mac_ret[o].called_in is not None and tuple(mac_ret[o].called_in) in all_call_positions]
            if found:
                starts_paired.setdefault(found[0], []).append(inst)
            else:
                first = emitted[j]
                prev_emitted = emitted[j - 1] if j else -1
                # ops that were dropped just before the expansion's first emitted op and carry a call position (that of this call or
                # of a nested call whose ops were all dropped)
                dropped = [o for o, x in sm.collect_mappings__macros() if prev_emitted < o < lo and o not in idx and x.called_in is not None]
                sig = "call-position-only-on-dropped-first-op" if dropped else "call-position-missing"
                acc.violation(gsig(sig), {"instance": [x[0] for x in inst], "first_op_candidates": cands, "got": None,
                                          "entries": [None if mac_ret[o].called_in is None else list(mac_ret[o].called_in) for o in cands],
                                          "expected_one_of": wants, "dropped_ops_with_the_call_position": dropped}, inp)
                return
        for off in emitted:
            me = mac_ret[off]
            if me is not None and me.called_in is not None and off in paired and off not in starts_paired:
                acc.violation(gsig("call-position-on-non-first-op"), {"offset": off, "called_in": list(me.called_in)}, inp)
                return
    # --- position marks: recorded marks = marks in emitted parameters (multiset)
    emitted_marks = sorted(pkey(p)[1:] for rr in c.routine_ops for op in rr for p in op.params if type(p).__name__ == "SsbOpParamPositionMarker")
    rec = [(m.name, m.x_offset, m.y_offset, m.x_relative, m.y_relative) for m in sm.get_position_marks__direct()]
    rec += [(t[2].name, t[2].x_offset, t[2].y_offset, t[2].x_relative, t[2].y_relative) for t in sm.get_position_marks__macros()]
    acc.count("position_marks_compared", len(emitted_marks))
    # a literal passed to a macro reaches as many ops as the macro uses its parameter (0, 1, several): compared as sets, and a
    # recorded mark that reaches no op must be the argument of a macro call
    missing = set(emitted_marks) - set(rec)
    extra = set(rec) - set(emitted_marks) - set(macro_arg_marks)
    if missing or extra:
        acc.violation(gsig("position-marks-differ", "not-recorded" if missing else "recorded-but-nowhere"),
                      {"emitted_but_not_recorded": sorted(missing)[:4], "recorded_but_not_emitted": sorted(extra)[:4]}, inp)
    elif sm.get_position_marks__macros():
        # marks written in macro bodies (not handed in as arguments): recorded once per emitted parameter, expansion by expansion
        from collections import Counter
        ce, cr = Counter(emitted_marks), Counter(rec)
        args = set(macro_arg_marks)
        for mk in sorted({(t[2].name, t[2].x_offset, t[2].y_offset, t[2].x_relative, t[2].y_relative) for t in sm.get_position_marks__macros()} - args):
            acc.count("macro_body_mark_counts_compared")
            if ce[mk] != cr[mk]:
                acc.violation(gsig("position-marks-differ", "count-of-a-macro-body-mark"), {"mark": mk, "emitted": ce[mk], "recorded": cr[mk]}, inp)
                break
    elif not macro_arg_marks and not file_of_macro:
        # no macro took part: every literal is recorded once per emitted parameter (the same mark may be written several times)
        from collections import Counter
        acc.count("position_mark_multisets_compared")
        ce, cr = Counter(emitted_marks), Counter(rec)
        if ce != cr:
            acc.violation(gsig("position-marks-differ", "count-of-equal-marks"),
                          {"emitted_more_often": sorted((ce - cr).items())[:4], "recorded_more_often": sorted((cr - ce).items())[:4]}, inp)
    return paired


def call_ids(progs):
    """ids of all macro call statements"""
    out = set()

    def walk(ss):
        for s in ss:
            k = s[0]
            if k == "macro":
                out.add(id(s))
            elif k == "if":
                for _, _, b in s[1]:
                    walk(b)
                if s[2]:
                    walk(s[2])
            elif k == "switch":
                for _, b in s[2]:
                    walk(b)
            elif k == "forever":
                walk(s[1])
            elif k == "while":
                walk(s[3])
            elif k == "for":
                walk(s[4])

    for p in progs:
        for m in p.get("macros", []):
            walk(m[2])
        for _, b in p.get("routines", []):
            if b:
                walk(b)
    return out


def call_arg_marks(progs):
    """position marks written as arguments of macro calls anywhere in the given programs"""
    out = []

    def walk(ss):
        for s in ss:
            k = s[0]
            if k == "macro":
                out.extend(pkey(a)[1:] for a in s[2] if a[0] == "pos")
            elif k == "if":
                for _, _, b in s[1]:
                    walk(b)
                if s[2]:
                    walk(s[2])
            elif k == "switch":
                for _, b in s[2]:
                    walk(b)
            elif k == "forever":
                walk(s[1])
            elif k == "while":
                walk(s[3])
            elif k == "for":
                walk(s[4])

    for p in progs:
        for m in p.get("macros", []):
            walk(m[2])
        for _, b in p.get("routines", []):
            if b:
                walk(b)
    return out


def called_macros(routines, macros):
    """names of the macros that the routines call, directly or through other macros (static call graph)"""
    seen = set()

    def walk(ss):
        for s in ss:
            k = s[0]
            if k == "macro":
                if s[1] not in seen and s[1] in macros:
                    seen.add(s[1])
                    walk(macros[s[1]][2])
            elif k == "if":
                for _, _, b in s[1]:
                    walk(b)
                if s[2]:
                    walk(s[2])
            elif k == "switch":
                for _, b in s[2]:
                    walk(b)
            elif k == "forever":
                walk(s[1])
            elif k == "while":
                walk(s[3])
            elif k == "for":
                walk(s[4])

    for _, b in routines:
        if b:
            walk(b)
    return seen


def check_program(acc, prog, name, rnd, layout_seed=None, sample=False):
    layout = "dense" if layout_seed == "dense" else random.Random(layout_seed) if layout_seed is not None else None
    r = print_program(prog, None, layout)
    inp = {"name": name, "prog": prog, "layout_seed": layout_seed, "text": r.text}
    try:
        ref = ref_lts(prog)
    except RefError:
        return
    acc.announce(name, {"text": r.text})
    monitors.drain()
    from explorerscript.error import ParseError, SsbCompilerError
    try:
        c = norm.compile_exps(r.text)
    except (ParseError, SsbCompilerError, ValueError):
        acc.count("rejected")
        return
    for m in monitors.drain("C08"):
        acc.violation(gsig(m["sig"]), m["witness"], inp)
    acc.count("compilations")
    acc.case(r.text, sum(len(x) for x in c.routine_ops) >= 3)
    fom = {m[0]: "main" for m in prog.get("macros", [])}
    check_compilation(acc, c, ref, {"main": r}, "main", fom, {}, inp, rnd, call_arg_marks([prog]), call_ids([prog]))
    check_control_statements(acc, c, prog, r, inp)
    if sample:
        acc.sample({"text": r.text[:500], "map": sorted((k, (v.line, v.column)) for k, v in c.source_map._mappings.items())[:12]})


def check_control_statements(acc, c, prog, r, inp):
    """`break;` / `continue;` / `break_loop;` / `jump @l;` written right after a plain operation of a routine: when the jump compiled
    for it is still there (the op that follows the operation's op, with the next offset), its entry is where the statement begins."""
    names = {}
    for rr in c.routine_ops:
        for i, op in enumerate(rr):
            names.setdefault(op.op_code.name, []).append((rr, i))
    sm = c.source_map

    def walk(ss):
        for a, b in zip(ss, ss[1:]):
            if a[0] == "op" and a[3] is None and b[0] in ("ctrl", "jump") and (b[0] == "jump" or b[1] in ("break", "continue", "break_loop")):
                hits = names.get(a[1], [])
                if len(hits) != 1:
                    continue
                rr, i = hits[0]
                if i + 1 < len(rr) and rr[i + 1].op_code.name == "Jump" and rr[i + 1].offset == rr[i].offset + 1:
                    want = r.posall.get(("stmt", id(b))) or set()
                    m = sm.get_op_line_and_col(rr[i + 1].offset)
                    acc.count("control_statement_entries_checked")
                    if want and (m is None or (m.line, m.column) not in want):
                        acc.violation(gsig("control-statement-entry-not-at-the-statement", b[1] if b[0] == "ctrl" else "jump"),
                                      {"statement": b[1], "expected": sorted(want), "got": None if m is None else (m.line, m.column)}, inp)
                        return False
        for st in ss:
            k = st[0]
            subs = []
            if k == "if":
                subs = [blk for _, _, blk in st[1]] + ([st[2]] if st[2] else [])
            elif k == "switch":
                subs = [blk for _, blk in st[2]]
            elif k == "forever":
                subs = [st[1]]
            elif k == "while":
                subs = [st[3]]
            elif k == "for":
                subs = [st[4]]
            for blk in subs:
                if walk(blk) is False:
                    return False
        return True

    for _, body in prog["routines"]:
        if body and walk(body) is False:
            return


def check_layout(acc, lay, name, rnd, sample=False):
    from explorerscript.error import ParseError, SsbCompilerError
    from explorerscript.included_usage_map import IncludedUsageMap

    with lay:
        inp = {"name": name, "layout": lay.describe(), "texts": lay.texts(), "root": lay.root, "gen": getattr(lay, "gen", None)}
        try:
            macros, read = lay.visible_macros(lay.main_key)
            ref = ref_lts(lay.files[lay.main_key], macros=macros)
        except (RefError, KeyError):
            return
        acc.announce(name, inp)
        monitors.drain()
        try:
            c = norm.compile_exps(lay.main_text, lay.main_path, lay.lookup)
        except (ParseError, SsbCompilerError, ValueError):
            acc.count("rejected")
            return
        for m in monitors.drain("C08"):
            acc.violation(gsig(m["sig"]), m["witness"], inp)
        acc.count("compilations")
        acc.count("layout_compilations")
        acc.case(repr(sorted(lay.texts().items())), True)
        fom = {n: m[3] for n, m in macros.items()}
        main_dir = os.path.dirname(os.path.join(lay.root, lay.main_key))
        rel_of = {k: os.path.relpath(os.path.join(lay.root, k), main_dir) for k in lay.files}
        paired = check_compilation(acc, c, ref, lay.rendered, lay.main_key, fom, rel_of, inp, rnd, call_arg_marks(lay.files.values()), call_ids(lay.files.values()))
        # included usage map: the imported files that contributed ops
        if paired is not None:
            contributed = {fom[m["stack"][-1][0]] for m in paired.values() if m.get("stack")}
            contributed.discard(lay.main_key)
            allmac = {fom[n] for n in called_macros(lay.files[lay.main_key]["routines"], macros)}
            allmac.discard(lay.main_key)
            got = IncludedUsageMap(c.source_map, lay.main_path).included_files
            gotk = {os.path.relpath(os.path.realpath(p), os.path.realpath(lay.root)) for p in got}
            acc.count("usage_maps_checked")
            if not (contributed <= gotk <= allmac):
                acc.violation(gsig("included-usage-map"), {"got": sorted(gotk), "contributing_at_least": sorted(contributed), "at_most": sorted(allmac)}, inp)
        if sample:
            acc.sample({"layout": lay.describe(), "macro_map": {k: v.serialize() for k, v in list(c.source_map._mappings_macros.items())[:6]}})


def run_shard(shard, acc):
    monitors.install()
    rnd = random.Random(shard["seed"] ^ 8)
    if shard["kind"] == "macro":
        for i, (name, lay) in enumerate(macro_workload(shard)):
            check_layout(acc, lay, name, rnd, sample=(i == 1))
        return
    for i, (name, prog) in enumerate(exps_workload(shard)):
        check_program(acc, prog, name, rnd, None, sample=(i == 1))
        check_program(acc, prog, name + ":layout", rnd, rnd.randrange(1 << 40))
        if i % 2 == 0:
            # the same marks written again at later places, one statement per line and the whole program on one line
            prog2 = with_repeated_literals(prog, rnd)
            acc.count("programs_with_repeated_marks")
            check_program(acc, prog2, name + ":repeated-marks", rnd, None)
            check_program(acc, prog2, name + ":repeated-marks:one-line", rnd, "dense")


def summarize(agg, tier):
    c = agg["counters"]
    cov = {
        "rule": "G-EXPS programs in the canonical and in a random layout (several statements per line), G-MACRO layouts; distinct by text; "
                "non-trivial = at least 3 emitted ops",
        "compilations": c.get("compilations", 0), "ops_paired": c.get("ops_paired", 0),
        "direct_entries_checked": c.get("direct_entries_checked", 0), "macro_entries_checked": c.get("macro_entries_checked", 0),
        "unpaired_entries_checked": c.get("unpaired_entries_checked", 0), "expansions_checked": c.get("expansions_checked", 0),
        "call_positions_checked": c.get("call_positions_checked", 0), "usage_maps_checked": c.get("usage_maps_checked", 0),
        "position_marks_compared": c.get("position_marks_compared", 0),
    }
    floors = []
    for k, n in (("direct_entries_checked", 5000), ("macro_entries_checked", 2000), ("expansions_checked", 300), ("call_positions_checked", 300)):
        if c.get(k, 0) < n:
            floors.append(f"{k} below {n}")
    return cov, not floors, floors


def replay(inp, acc):
    from vf.common import prog_from_json
    monitors.install()
    if "prog" in inp:
        check_program(acc, prog_from_json(inp["prog"]), inp.get("name"), random.Random(0), inp.get("layout_seed"))
    elif inp.get("gen"):
        g = inp["gen"]
        for name, lay in macro_workload({"seed": g["seed"], "n": g["n"], "rich": g.get("rich", True)}, only=g["index"]):
            check_layout(acc, lay, name, random.Random(0))
    else:
        acc.inconc("replay of layouts needs the generator seed; see the recorded texts in the replay file")
