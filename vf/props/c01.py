"""C01 - compiled bytecode behaves exactly as the source program says.
Workload G-EXPS (shape catalogue exhaustively + random programs); oracle M-EQ(M-REF(ast), M-SSB(routine_ops))
per routine under all outcomes of all tests, plus routine id / kind / target / coroutine-name tables."""
from __future__ import annotations

import random

from vf import monitors, norm
from vf.common import compare_lts, gsig, prog_from_json, shard_seeds
from vf.esast import print_program, ref_lts, RefError, routine_table
from vf.gen import Gen, Cfg, shape_catalogue
from vf.lts import ssb_lts, MalformedSsb, count_paths, pkey

LEVEL = "translation_validation"
ASSUMPTIONS = [
    "reference semantics M-REF written from docs/language_spec.rst (vf/esast.py) is the meaning of the source",
    "SSB machine M-SSB (vf/lts.py): Jump silent, Return == running off the routine end, flow enders stop, "
    "an op directly after lives/object/performer does not end the flow (as the compiler and decompiler assume)",
    "CaseValue under a scn(..)[0] switch is emitted as CaseScenario (documented in switch_block.py)",
    "programs whose reference machine has an op-free cycle are excluded (counted)",
]
N_RANDOM = {"quick": 260, "thorough": 2500}  # per shard
NSHARDS = {"quick": 15, "thorough": 16}


def shards(tier, seed):
    out = [{"kind": "catalogue", "seed": seed}]
    for i, s in enumerate(shard_seeds(seed, NSHARDS[tier], "C01")):
        depth = 2 if tier == "quick" else (2 + i % 3)
        out.append({"kind": "random", "seed": s, "n": N_RANDOM[tier], "depth": depth})
    return out


def check_program(prog, acc, rnd=None, name=None):
    """Returns list of violation tuples (sig, witness). Also returns compile result (or None)."""
    r = print_program(prog)
    inp = {"prog": prog, "text": r.text, "name": name}
    try:
        ref = ref_lts(prog)
    except RefError as e:
        acc.count("generator_invalid:" + str(e)[:30])
        return None
    acc.announce(name or "random", {"text": r.text})
    from explorerscript.error import ParseError, SsbCompilerError

    monitors.drain()
    try:
        c = norm.compile_exps(r.text)
    except (ParseError, SsbCompilerError, ValueError) as e:
        acc.count("rejected:" + type(e).__name__)
        if len(acc.sets.get("rejected_messages", ())) < 12:
            acc.add_to_set("rejected_messages", gsig(type(e).__name__, str(e)[:60]))
        return None
    except Exception as e:
        acc.count("compile_crash:" + type(e).__name__)
        acc.inconc("compile-crash", {"type": type(e).__name__, "text": r.text[:400]})
        return None
    viol = []
    try:
        got = ssb_lts(c.routine_ops)
    except MalformedSsb as e:
        viol.append((gsig("malformed-output", str(e).split("@")[0]), {"problem": str(e)}))
        got = None
    nontrivial = False
    if got is not None:
        for ri, sig, w in compare_lts(acc, ref, got, "C01", rnd=rnd):
            viol.append((sig, dict(w, routine=ri)))
        paths = sum(count_paths(ref, s) for s in ref.starts if s is not None)
        tests = sum(1 for n in ref.nodes.values() if n[0] == "test")
        acc.count("paths", min(paths, 10**6))
        acc.count("tests", tests)
        nontrivial = tests >= 1 and paths >= 2
        # routine tables
        exp = routine_table(prog)
        infos = norm.infos(c.routine_infos, c.named_coroutines)
        for rid, (kind, tgt, cname) in exp.items():
            if rid >= len(infos) or infos[rid] is None:
                viol.append((gsig("routine-table-missing"), {"routine": rid}))
                continue
            k, linked, linked_name, name_ = infos[rid]
            want_t = None if tgt is None else (tgt[1] if tgt[0] == "int" else None)
            want_n = None if tgt is None or tgt[0] == "int" else tgt[1]
            ok = k == kind and name_ == cname
            if tgt is not None:
                ok = ok and ((want_t is not None and linked == want_t) or (want_n is not None and linked_name == want_n))
            if not ok:
                viol.append((gsig("routine-table", kind), {"routine": rid, "expected": [kind, tgt, cname], "got": infos[rid]}))
        if len(infos) != (max(exp) + 1 if exp else 0):
            viol.append((gsig("routine-table-length"), {"expected": max(exp) + 1 if exp else 0, "got": len(infos)}))
    for m in monitors.drain():
        acc.count("monitor:" + m["prop"])
    acc.case(r.text, nontrivial)
    acc.count("programs_accepted")
    for sig, w in viol:
        acc.violation(sig, w, inp)
    return c


def run_shard(shard, acc):
    monitors.install()
    if shard["kind"] == "catalogue":
        rnd = random.Random(shard["seed"])
        for name, prog in shape_catalogue():
            check_program(prog, acc, rnd, name)
            acc.count("catalogue_programs")
            if name.startswith(("if_lonejump_end_neg1_c1_noterm", "switch_lonejump_noterm", "for_noterm")):
                acc.sample({"name": name, "text": print_program(prog).text})
        return
    rnd = random.Random(shard["seed"])
    from vf.common import exps_workload
    for i, (name, prog) in enumerate(exps_workload(shard)):
        check_program(prog, acc, rnd, name)
        if prog["macros"]:
            acc.count("programs_with_macros")
        if i < 1:
            acc.sample({"name": "random", "text": print_program(prog).text[:1500]})


def summarize(agg, tier):
    c = agg["counters"]
    cov = {
        "programs": c.get("programs_accepted", 0),
        "disagreements_checked": c.get("routines_compared", 0),
        "rule": "G-EXPS programs (shape catalogue exhaustively + seeded random programs); distinct by text hash; "
                "non-trivial = reference machine has >= 1 test and >= 2 paths; each routine compared by the "
                "pair-memoised product M-EQ (complete over paths for that program)",
        "lts_pairs_explored": c.get("lts_pairs", 0),
        "paths_sum": c.get("paths", 0),
        "random_walk_rechecks": c.get("walks", 0),
        "rejected_by_compiler": {k: v for k, v in c.items() if k.startswith("rejected:")},
    }
    floors = []
    if c.get("routines_compared", 0) < 100:
        floors.append(f"only {c.get('routines_compared', 0)} routines compared")
    if c.get("catalogue_programs", 0) < 100:
        floors.append("shape catalogue not run")
    return cov, not floors, floors


def replay(inp, acc):
    monitors.install()
    prog = prog_from_json(inp["prog"])
    check_program(prog, acc, random.Random(0), inp.get("name"))
