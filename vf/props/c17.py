"""C17 - the highlighting lexer is total and loses no text.
Workload: G-TEXT (random Unicode strings, token soup over ExplorerScript lexemes with quote / comment openers)
and the texts of G-EXPS programs in pretty and random layouts. Oracle: offline checker over the recorded token
stream of the real Pygments lexer class."""
from __future__ import annotations

import random

from vf.common import exps_workload, shard_seeds, gsig, try_compile
from vf.esast import print_program, Style
from vf import invalid

LEVEL = "exploration"
ASSUMPTIONS = [
    "get_tokens_unprocessed(t) must concatenate to exactly t with contiguous indices; get_tokens(t) must concatenate to "
    "Pygments' preprocessing of t (BOM removed, \\r\\n and \\r -> \\n, leading/trailing newlines stripped, one newline ensured)",
    "non-termination is decided logically: more than 2*len(t)+16 tokens, or a token stream that does not advance",
]


def shards(tier, seed):
    n = 400 if tier == "quick" else 12000
    out = []
    for i, s in enumerate(shard_seeds(seed, 12, "C17")):
        out.append({"kind": "text", "seed": s, "n": n})
    for s in shard_seeds(seed, 4, "C17p"):
        out.append({"kind": "programs", "seed": s, "n": 60 if tier == "quick" else 1500})
    return out


POOLS = [
    lambda r: chr(r.randint(32, 126)),
    lambda r: r.choice("\n\r\t\f\v\x00\x1c\x85  ﻿ "),
    lambda r: chr(r.randint(0xA0, 0x24F)),
    lambda r: chr(r.randint(0x370, 0xFFFD)),
    lambda r: chr(r.randint(0x10000, 0x10FFFF)),
    lambda r: chr(r.randint(0xD800, 0xDFFF)),
    lambda r: r.choice(["'", '"', "'''", '"""', "/*", "*/", "//", "\\", "\\n", "\\'", ".5", "0x1F", "0b01", "017", "§l", "@l", "$v"]),
    lambda r: r.choice(["def", "coro", "macro", "if", "elseif", "for_actor", "break_loop", "message_SwitchTalk", "TRUE", "dungeon_mode", "Position"]),
]


def random_text(r: random.Random) -> str:
    c = r.random()
    if c < 0.35:
        return invalid.soup_text(r)
    n = r.choice([0, 1, 2, 3, 5, 8, 13, 40, 120])
    weights = [8, 3, 1, 1, 1, 0.3, 5, 3]
    return "".join(r.choices(POOLS, weights)[0](r) for _ in range(n))


def preprocess(t: str) -> str:
    """Pygments' input preprocessing with default options, written from its documentation."""
    if t.startswith("﻿"):
        t = t[1:]
    t = t.replace("\r\n", "\n").replace("\r", "\n")
    t = t.strip("\n")
    if not t.endswith("\n"):
        t += "\n"
    return t


_PREV = [None]


def check_text(acc, t, inp, accepted_source=False):
    from explorerscript.pygments.expslexer import ExplorerScriptLexer
    from pygments.token import Error

    lx = ExplorerScriptLexer()
    acc.announce("text", {"text": t})
    bound = 2 * len(t) + 16
    pos = 0
    out = []
    ntok = 0
    nerr = 0
    problems = []
    try:
        for idx, tok, val in lx.get_tokens_unprocessed(t):
            ntok += 1
            if ntok > bound:
                problems.append(("runaway", {"tokens": ntok, "len": len(t)}))
                break
            if idx != pos:
                problems.append(("index-not-contiguous", {"expected": pos, "got": idx, "token": repr(val)[:40]}))
                break
            if val == "" :
                acc.count("empty_tokens")
            pos = idx + len(val)
            out.append(val)
            if tok is Error:
                nerr += 1
    except RecursionError:
        problems.append(("raised", {"type": "RecursionError"}))
    except Exception as e:
        problems.append(("raised", {"type": type(e).__name__, "message": str(e)[:100]}))
    if not problems:
        got = "".join(out)
        if got != t:
            i = next((k for k, (a, b) in enumerate(zip(got, t)) if a != b), min(len(got), len(t)))
            problems.append(("text-lost", {"at": i, "expected": repr(t[i:i + 20]), "got": repr(got[i:i + 20])}))
    # the processed interface
    if not problems:
        try:
            n2 = 0
            parts = []
            for tok, val in lx.get_tokens(t):
                n2 += 1
                if n2 > bound + 4:
                    problems.append(("runaway-get_tokens", {"tokens": n2}))
                    break
                parts.append(val)
            got2 = "".join(parts)
            if not problems and got2 != preprocess(t):
                problems.append(("get_tokens-differs-from-preprocessed-input", {"expected": repr(preprocess(t))[:60], "got": repr(got2)[:60]}))
        except Exception as e:
            problems.append(("raised-get_tokens", {"type": type(e).__name__}))
    # two lazily consumed token streams of one lexer object (a formatter that zips two files): each stream must give exactly the
    # tokens it gives when consumed alone
    if not problems and _PREV[0] is not None and (len(t) + len(_PREV[0])) <= 4000:
        import itertools
        prev = _PREV[0]
        try:
            lx2 = ExplorerScriptLexer()
            alone_a, alone_b = list(lx2.get_tokens_unprocessed(prev)), list(lx2.get_tokens_unprocessed(t))
            ia, ib = [], []
            for x, y in itertools.zip_longest(lx2.get_tokens_unprocessed(prev), lx2.get_tokens_unprocessed(t)):
                if x is not None:
                    ia.append(x)
                if y is not None:
                    ib.append(y)
                if len(ia) + len(ib) > 2 * bound + 4 * len(prev) + 64:
                    break
            acc.count("interleaved_stream_pairs")
            if ia != alone_a or ib != alone_b:
                which = "first" if ia != alone_a else "second"
                lost = "".join(v for _, _, v in (ia if which == "first" else ib)) != (prev if which == "first" else t)
                problems.append(("interleaved-streams-of-one-lexer-differ-from-streams-consumed-alone",
                                 {"which": which, "text_lost": lost, "other_text": prev[:200]}))
        except Exception as e:
            problems.append(("raised-interleaved", {"type": type(e).__name__}))
    _PREV[0] = t
    if accepted_source and nerr:
        problems.append(("error-token-on-accepted-source", {"errors": nerr}))
    acc.count("tokens_observed", ntok)
    acc.count("error_tokens", nerr)
    acc.count("lexer_runs")
    acc.case(t, len(t) > 0)
    for k, w in problems:
        acc.violation(gsig(k), w, inp)
    return ntok


def run_shard(shard, acc):
    rnd = random.Random(shard["seed"])
    if shard["kind"] == "text":
        for i in range(shard["n"]):
            t = random_text(rnd)
            n = check_text(acc, t, {"text": t})
            if i < 2:
                acc.sample({"text": t[:200], "tokens": n})
        return
    from vf import monitors
    for name, prog in exps_workload({"kind": "random", "seed": shard["seed"], "n": shard["n"], "depth": 2}):
        for lay in (None, random.Random(rnd.randrange(1 << 30))):
            st = Style(random.Random(rnd.randrange(1 << 30)), 0.3) if lay else None
            t = print_program(prog, st, lay).text
            ok = try_compile(t, acc) is not None
            acc.count("program_texts")
            if ok:
                acc.count("accepted_program_texts")
            check_text(acc, t, {"text": t, "accepted": ok}, accepted_source=ok)
        # accepted sources with hostile string literals: the compiler takes a backslash followed by anything, both quote
        # styles, triple quotes, language strings and message-switch texts
        for _ in range(3):
            q = rnd.choice(["'", '"', "'''", '"""'])
            body = "".join(rnd.choice(LIT_ATOMS) for _ in range(rnd.randint(1, 6)))
            lit = q + body + q
            t = rnd.choice(LIT_TEMPLATES).replace("%s", lit)
            ok = try_compile(t, acc) is not None
            acc.count("string_literal_texts")
            if ok:
                acc.count("accepted_program_texts")
                acc.count("accepted_string_literal_texts")
            check_text(acc, t, {"text": t, "accepted": ok}, accepted_source=ok)


LIT_ATOMS = ["a", " ", "\\t", "\\[CS:K]", "C:\\data", "30\\%", "\\\\", "\\n", "\\'", '\\"', "\\x", "'", '"', "{", "}", "//", "/*", "*/", ";", "ü",
             "\\ü", "@l", "§"]
LIT_TEMPLATES = ["def 0 { op(%s); }", "def 0 { op({english=%s, german=%s}); }", "def 0 { switch (message_SwitchMenu(1)) { case menu(%s): a(); } }",
                 "def 0 {\n    message_SwitchTalk ($A) {\n        case 1: %s\n    }\n}"]


def summarize(agg, tier):
    c = agg["counters"]
    cov = {
        "rule": "random Unicode strings / token soup / program texts (pretty and random layout); distinct by text; non-trivial = "
                "non-empty; the token stream of get_tokens_unprocessed and get_tokens is recorded and checked offline",
        "tokens_observed": c.get("tokens_observed", 0),
        "error_tokens_seen": c.get("error_tokens", 0),
        "accepted_program_texts": c.get("accepted_program_texts", 0),
    }
    floors = []
    if c.get("lexer_runs", 0) < 1000:
        floors.append("fewer than 1000 lexer runs")
    if c.get("accepted_program_texts", 0) < 50:
        floors.append("fewer than 50 compiler-accepted program texts lexed")
    return cov, not floors, floors


def replay(inp, acc):
    check_text(acc, inp["text"], inp, accepted_source=inp.get("accepted", False))
