"""C16 - layout, comments and alternative spellings do not change the compiled ops.
Workload: G-EXPS program x k re-spellings (G-LAYOUT: random blanks / newlines / line joinings / comments at every
token boundary, @ vs paragraph sign, for_actor(X) vs for actor X, trailing commas, integer bases, redundant zeros of
decimals, quote style, multi-line spelling of strings). Oracle: recorded results of the real compiler compared."""
from __future__ import annotations

import random

from vf import monitors, norm
from vf.common import exps_workload, std_shards, gsig, try_compile, prog_from_json
from vf.esast import print_program, Style, Printer, render

LEVEL = "exploration"
ASSUMPTIONS = [
    "a re-spelling only uses forms the grammar files admit; separators are never removed where two tokens would glue",
    "string re-spellings are only used when my own decoder (spec rules) gives the same value",
    "compared: ops with raw offsets, routine tables, coroutine names, position marks (name + coordinates); "
    "source-map line/column positions are excluded",
]


def shards(tier, seed):
    return std_shards("C16", tier, seed, 70, 900)


def result_key(c):
    pms = [(m.name, m.x_offset, m.y_offset, m.x_relative, m.y_relative) for m in c.source_map.get_position_marks__direct()]
    return {"ops": norm.raw(c.routine_ops), "infos": norm.infos(c.routine_infos, c.named_coroutines), "pos_marks": pms}


def check_program(acc, prog, rnd, k, name, sample=False):
    base = print_program(prog)
    acc.announce(name, {"text": base.text})
    c0 = try_compile(base.text, acc)
    if c0 is None:
        return
    k0 = result_key(c0)
    acc.count("programs")
    for i in range(k):
        sseed, lseed = rnd.randrange(1 << 40), rnd.randrange(1 << 40)
        mode = i % 3
        style = Style(random.Random(sseed), 0.45) if mode != 1 else None
        layout = random.Random(lseed) if mode != 2 else None
        r = print_program(prog, style, layout)
        inp = {"name": name, "prog": prog, "style_seed": sseed, "layout_seed": lseed, "mode": mode, "original": base.text,
               "respelling": r.text}
        acc.announce(name, {"text": r.text})
        monitors.drain()
        from explorerscript.error import ParseError, SsbCompilerError
        try:
            c1 = norm.compile_exps(r.text)
        except (ParseError, SsbCompilerError, ValueError) as e:
            acc.violation(gsig("respelling-rejected", type(e).__name__, str(e)[:50]), {"error": str(e)[:200]}, inp)
            continue
        except Exception as e:
            acc.violation(gsig("respelling-crashed", type(e).__name__), {"error": str(e)[:200]}, inp)
            continue
        k1 = result_key(c1)
        acc.count("respellings_compared")
        acc.count("respelled_tokens", r.text.count("/*") + r.text.count("//"))
        acc.case(r.text, r.text != base.text)
        if k1 != k0:
            what = next(x for x in ("infos", "pos_marks", "ops") if k0[x] != k1[x])
            diff = None
            if what == "ops":
                for ra, rb in zip(k0["ops"], k1["ops"]):
                    for a, b in zip(ra, rb):
                        if a != b:
                            diff = (a, b)
                            break
                    if diff or len(ra) != len(rb):
                        break
            acc.violation(gsig("result-differs", what, diff[0][1] if diff else ""), {"what": what, "first_difference": repr(diff)[:400]}, inp)
        if sample and i == 0:
            acc.sample({"original": base.text[:500], "respelling": r.text[:700]})


def run_shard(shard, acc):
    monitors.install()
    rnd = random.Random(shard["seed"] ^ 0x16)
    k = 4 if shard.get("n", 0) < 200 else 12
    for i, (name, prog) in enumerate(exps_workload(shard)):
        check_program(acc, prog, rnd, k if shard["kind"] != "catalogue" else 2, name, sample=(i == 0))


def summarize(agg, tier):
    c = agg["counters"]
    cov = {
        "rule": "each accepted G-EXPS program is re-spelled k times (style only / layout only / both); distinct by re-spelled "
                "text; non-trivial = text differs from the canonical spelling",
        "programs": c.get("programs", 0),
        "respellings_compared": c.get("respellings_compared", 0),
        "comments_inserted": c.get("respelled_tokens", 0),
    }
    floors = []
    if c.get("respellings_compared", 0) < 500:
        floors.append("fewer than 500 re-spellings compared")
    return cov, not floors, floors


def replay(inp, acc):
    monitors.install()
    prog = prog_from_json(inp["prog"])
    base = print_program(prog)
    c0 = try_compile(base.text, acc)
    style = Style(random.Random(inp["style_seed"]), 0.45) if inp["mode"] != 1 else None
    layout = random.Random(inp["layout_seed"]) if inp["mode"] != 2 else None
    r = print_program(prog, style, layout)
    try:
        c1 = norm.compile_exps(r.text)
    except Exception as e:
        acc.violation(gsig("respelling-rejected", type(e).__name__, str(e)[:50]), {"error": str(e)[:200]}, inp)
        return
    if c0 is not None and result_key(c0) != result_key(c1):
        acc.violation("result-differs", {}, inp)
    acc.case(r.text, True)
