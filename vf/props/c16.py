"""C16 - layout, comments and alternative spellings do not change the compiled ops.
Workload: G-EXPS program x k re-spellings (G-LAYOUT: random blanks / newlines / line joinings / comments at every
token boundary, @ vs paragraph sign, for_actor(X) vs for actor X, trailing commas, integer bases, redundant zeros of
decimals, quote style, multi-line spelling of strings). Oracle: recorded results of the real compiler compared."""
from __future__ import annotations

import json
import random

from vf import monitors, norm
from vf.common import exps_workload, std_shards, shard_seeds, gsig, try_compile, prog_from_json, with_repeated_literals
from vf.esast import print_program, Style, Printer, render

LEVEL = "exploration"
ASSUMPTIONS = [
    "a re-spelling only uses forms the grammar files admit; separators are never removed where two tokens would glue",
    "string re-spellings are only used when my own decoder (spec rules) gives the same value",
    "compared: ops with raw offsets, routine tables, coroutine names, position marks (name + coordinates); "
    "source-map line/column positions are excluded",
]


def shards(tier, seed):
    out = std_shards("C16", tier, seed, 70, 900)
    # re-spellings inside imported files, compiled in this process and in a child whose locale encoding is not UTF-8
    # programs rich in position marks in which the same mark is written at several places (on one line in some layouts)
    for s in shard_seeds(seed, 2, "C16r"):
        out.append({"kind": "random", "seed": s, "n": 40 if tier == "quick" else 600, "depth": 2, "cfg": {"pos_p": 0.4}, "repeat_marks": True})
    for s in shard_seeds(seed, 2, "C16i"):
        out.append({"kind": "imported", "seed": s, "n": 18 if tier == "quick" else 300})
    return out


def result_key(c):
    pms = [(m.name, m.x_offset, m.y_offset, m.x_relative, m.y_relative) for m in c.source_map.get_position_marks__direct()]
    return {"ops": norm.raw(c.routine_ops), "infos": norm.infos(c.routine_infos, c.named_coroutines), "pos_marks": pms}


def check_program(acc, prog, rnd, k, name, sample=False):
    base = print_program(prog)
    acc.announce(name, {"text": base.text})
    c0 = try_compile(base.text, acc)
    if c0 is None:
        return
    k0 = result_key(c0)
    acc.count("programs")
    for i in range(k + 1):
        sseed, lseed = rnd.randrange(1 << 40), rnd.randrange(1 << 40)
        mode = i % 3 if i < k else 3  # 3: the whole program on one line
        style = Style(random.Random(sseed), 0.45) if mode not in (1, 3) else None
        layout = "dense" if mode == 3 else random.Random(lseed) if mode != 2 else None
        r = print_program(prog, style, layout)
        inp = {"name": name, "prog": prog, "style_seed": sseed, "layout_seed": lseed, "mode": mode, "original": base.text,
               "respelling": r.text}
        acc.announce(name, {"text": r.text})
        monitors.drain()
        from explorerscript.error import ParseError, SsbCompilerError
        try:
            c1 = norm.compile_exps(r.text)
        except (ParseError, SsbCompilerError, ValueError) as e:
            acc.violation(gsig("respelling-rejected", type(e).__name__, str(e)[:50]), {"error": str(e)[:200]}, inp)
            continue
        except Exception as e:
            acc.violation(gsig("respelling-crashed", type(e).__name__), {"error": str(e)[:200]}, inp)
            continue
        k1 = result_key(c1)
        acc.count("respellings_compared")
        acc.count("respelled_tokens", r.text.count("/*") + r.text.count("//"))
        acc.case(r.text, r.text != base.text)
        if k1 != k0:
            what = next(x for x in ("infos", "pos_marks", "ops") if k0[x] != k1[x])
            diff = None
            if what == "ops":
                for ra, rb in zip(k0["ops"], k1["ops"]):
                    for a, b in zip(ra, rb):
                        if a != b:
                            diff = (a, b)
                            break
                    if diff or len(ra) != len(rb):
                        break
            acc.violation(gsig("result-differs", what, diff[0][1] if diff else ""), {"what": what, "first_difference": repr(diff)[:400]}, inp)
        if sample and i == 0:
            acc.sample({"original": base.text[:500], "respelling": r.text[:700]})


def _compile_layout(lay):
    """result key of the layout's main file, or ('rejected', type)"""
    from explorerscript.error import ParseError, SsbCompilerError
    try:
        return result_key(norm.compile_exps(lay.main_text, lay.main_path, lay.lookup))
    except (ParseError, SsbCompilerError, ValueError) as e:
        return ("rejected", type(e).__name__, str(e)[:160])


def _strip_root(x, root):
    return json.loads(json.dumps(x, default=repr).replace(root, "<root>"))


def run_imported(shard, acc, only=None):
    """The imported files of a G-MACRO layout are written in the canonical and in an alternative spelling (both @ and the
    paragraph sign, other integer bases, comments, ...). Both must compile to the same result, in this process and in a child
    interpreter that runs with the C locale (default encoding ASCII, UTF-8 mode off)."""
    import os, subprocess, tempfile, shutil
    from vf.macrogen import macro_workload
    from vf.env import PY, REPO, VERIF

    rnd = random.Random(shard["seed"] ^ 0x161)
    scratch = tempfile.mkdtemp(prefix="verif_c16_")
    jobs, expect, entered = [], {}, []
    try:
        for idx, (name, lay) in enumerate(macro_workload(dict(shard, rich=True))):
            sseed, lseed = rnd.randrange(1 << 40), rnd.randrange(1 << 40)
            if only is not None and idx != only:
                continue
            inp = {"kind": "imported", "seed": shard["seed"], "n": shard["n"], "index": idx, "layout": lay.describe()}
            with lay:
                k0 = _strip_root(_compile_layout(lay), lay.root)
                inp["canonical"] = lay.texts()
            if isinstance(k0, list) and k0 and k0[0] == "rejected":
                acc.count("imported_layouts_rejected")
                continue
            acc.count("imported_layouts")
            lay.spelling = (sseed, lseed if idx % 3 else None)
            lay.__enter__()
            entered.append(lay)
            inp["respelling"] = lay.texts()
            acc.announce(name, {"text": lay.main_text})
            k1 = _strip_root(_compile_layout(lay), lay.root)
            acc.count("respellings_compared")
            acc.count("imported_respellings_compared")
            acc.case(json.dumps(inp["respelling"], sort_keys=True), inp["respelling"] != inp["canonical"])
            if any("\u00a7" in t for k, t in inp["respelling"].items() if k != lay.main_key):
                acc.count("imported_files_with_paragraph_sign_labels")
            if k1 != k0:
                acc.violation(gsig("result-differs", "imported-file-respelled", k1[1] if isinstance(k1, list) and k1 and k1[0] == "rejected" else "ops"),
                              {"canonical": repr(k0)[:300], "respelled": repr(k1)[:300]}, inp)
                continue
            jobs.append({"id": str(idx), "main": lay.main_path, "lookup": lay.lookup})
            expect[str(idx)] = (k0, inp, lay.root)
        if not jobs:
            return
        jf, of = os.path.join(scratch, "jobs.json"), os.path.join(scratch, "out.json")
        json.dump(jobs, open(jf, "w"))
        env = {k: v for k, v in os.environ.items() if not k.startswith("LC_") and k not in ("LANG", "LANGUAGE", "PYTHONIOENCODING")}
        env.update(LC_ALL="C", PYTHONUTF8="0", PYTHONCOERCECLOCALE="0", PYTHONPATH=REPO + os.pathsep + VERIF, PYTHONHASHSEED="0",
                   PYTHONDONTWRITEBYTECODE="1", VERIF_REPO=REPO)
        p = subprocess.run([PY, "-m", "vf.localechild", jf, of], capture_output=True, text=True, env=env, timeout=600)
        if p.returncode != 0 or not os.path.exists(of):
            acc.inconc("locale-child-failed", {"stderr": p.stderr[-300:]})
            return
        res = json.load(open(of))
        acc.add_to_set("child_default_encodings", res["encoding"])
        if res["encoding"].lower().replace("-", "") in ("utf8",):
            acc.inconc("locale-child-runs-with-utf8", {"encoding": res["encoding"]})
            return
        for jid, (k0, inp, root) in expect.items():
            r = res["results"].get(jid)
            acc.count("compiled_in_a_child_with_another_default_encoding")
            got = _strip_root(r.get("key"), root) if r and r.get("ok") else ["rejected", (r or {}).get("exc"), (r or {}).get("msg")]
            if got != k0:
                acc.violation(gsig("result-differs", "imported-file-respelled", "in-a-process-with-default-encoding-" + res["encoding"],
                                   got[1] if got and got[0] == "rejected" else "ops"),
                              {"expected": repr(k0)[:300], "child": repr(got)[:300], "child_encoding": res["encoding"]}, inp)
    finally:
        for lay in entered:
            lay.__exit__()
        shutil.rmtree(scratch, ignore_errors=True)


def run_shard(shard, acc):
    monitors.install()
    if shard["kind"] == "imported":
        return run_imported(shard, acc)
    rnd = random.Random(shard["seed"] ^ 0x16)
    k = 4 if shard.get("n", 0) < 200 else 12
    for i, (name, prog) in enumerate(exps_workload(shard)):
        if shard.get("repeat_marks"):
            prog = with_repeated_literals(prog, rnd)
            name += ":repeated-marks"
            acc.count("programs_with_repeated_marks")
        check_program(acc, prog, rnd, k if shard["kind"] != "catalogue" else 2, name, sample=(i == 0))


def summarize(agg, tier):
    c = agg["counters"]
    cov = {
        "rule": "each accepted G-EXPS program is re-spelled k times (style only / layout only / both); distinct by re-spelled "
                "text; non-trivial = text differs from the canonical spelling",
        "programs": c.get("programs", 0),
        "respellings_compared": c.get("respellings_compared", 0),
        "comments_inserted": c.get("respelled_tokens", 0),
    }
    floors = []
    if c.get("respellings_compared", 0) < 500:
        floors.append("fewer than 500 re-spellings compared")
    return cov, not floors, floors


def replay(inp, acc):
    monitors.install()
    if inp.get("kind") == "imported":
        return run_imported({"kind": "imported", "seed": inp["seed"], "n": inp["n"]}, acc, only=inp["index"])
    prog = prog_from_json(inp["prog"])
    base = print_program(prog)
    c0 = try_compile(base.text, acc)
    style = Style(random.Random(inp["style_seed"]), 0.45) if inp["mode"] not in (1, 3) else None
    layout = "dense" if inp["mode"] == 3 else random.Random(inp["layout_seed"]) if inp["mode"] != 2 else None
    r = print_program(prog, style, layout)
    try:
        c1 = norm.compile_exps(r.text)
    except Exception as e:
        acc.violation(gsig("respelling-rejected", type(e).__name__, str(e)[:50]), {"error": str(e)[:200]}, inp)
        return
    if c0 is not None and result_key(c0) != result_key(c1):
        acc.violation("result-differs", {}, inp)
    acc.case(r.text, True)
