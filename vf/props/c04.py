"""C04 - every parameter value survives being printed and parsed again; literal spellings mean what the spec says.
Direction 1 (print -> parse): G-VAL values are planted into SSB ops in every printing context (SsbScript argument,
ExplorerScript argument at nesting depth 0..4, inline-context argument, case menu(...) header, message-switch case /
default text, dungeon-mode positions), printed by the real decompilers and compiled back by the real compilers.
Direction 2 (G-LIT): literal spellings admitted by the grammar are compiled and compared with my own decoders."""
from __future__ import annotations

import random

from vf import monitors, norm, t2a
from vf.common import shard_seeds, gsig, safe_decompile
from vf.env import DM_NAMES
from vf.esast import print_program
from vf.lts import pkey
from vf.ssbgen import gval_param, gval_string

LEVEL = "exploration"
ASSUMPTIONS = [
    "equality = canonical parameter key; a dungeon-mode number 0..3 may come back as its configured constant (property text); "
    "position-mark offsets 2 and 4 both denote the half-tile offset (docs/source_maps.rst) and are identified",
    "my decoders (vf/t2a.py) implement the documented literal rules; spellings on which the spec is ambiguous (tabs as indentation) "
    "are generated only for the print->parse direction",
]


def shards(tier, seed):
    out = []
    for s in shard_seeds(seed, 11, "C04"):
        out.append({"kind": "values", "seed": s, "n": 120 if tier == "quick" else 3000})
    for s in shard_seeds(seed, 5, "C04l"):
        out.append({"kind": "literals", "seed": s, "n": 300 if tier == "quick" else 8000})
    return out


# ------------------------------------------------------------------------------------ direction 1
def nest(stmt, depth, rnd):
    """wrap a statement into `depth` nested blocks (if / else / switch case / forever) - each adds one indentation level"""
    n = 500
    for d in range(depth):
        n += 1
        k = rnd.randint(0, 3)
        cond = ("Branch", (("const", "$N"), ("int", n)))
        if k == 0:
            stmt = [("if", [(False, [cond], stmt)], None)]
        elif k == 1:
            stmt = [("if", [(False, [cond], [("op", f"pad_{n}", [], None)])], stmt)]
        elif k == 2:
            stmt = [("switch", ("Switch", (("int", n),)), [(("case", ("Case", (("int", 1),))), stmt + [("ctrl", "break")]),
                                                            (("default",), [("op", f"pad_{n}", [], None)])])]
        else:
            stmt = [("if", [(True, [cond], stmt)], None)]
    return stmt


CONTEXTS = ["ssbs_arg", "exps_arg", "exps_inline_ctx", "case_menu", "msg_case_text", "msg_default_text", "dungeon_mode_set",
            "dungeon_mode_case", "flag_value", "with_block_arg", "case_menu2", "case_value", "case_plain", "if_value"]


def template(ctx, depth, rnd):
    """program whose compiled form contains the marker op(s) into which values are planted; returns (prog, planter)"""
    mark = ("op", "marker_op", [("int", 4242)], None)
    if ctx in ("ssbs_arg", "exps_arg"):
        body = nest([mark], depth, rnd)
    elif ctx == "exps_inline_ctx":
        body = nest([("op", "marker_op", [("int", 4242)], ("actor", ("const", "ACTOR_X")))], depth, rnd)
    elif ctx == "with_block_arg":
        body = nest([("with", "object", ("int", 7), ("asg", ("flag_Set", (("const", "$A"), ("int", 4242)))))], depth, rnd)
    elif ctx == "case_menu":
        sw = ("switch", ("message_SwitchMenu", (("int", 1), ("int", 2))),
              [(("case", ("CaseMenu", (("str", "MARK"),))), [("op", "c1", [], None), ("ctrl", "break")]),
               (("case", ("CaseMenu", (("str", "other"),))), [("op", "c2", [], None)])])
        body = nest([sw], depth, rnd)
    elif ctx in ("msg_case_text", "msg_default_text"):
        ms = ("msgswitch", "message_SwitchTalk", ("const", "$V"), [(("case", ("int", 1)), ("str", "MARK1")), (("default",), ("str", "MARK2"))])
        body = nest([ms], depth, rnd)
    elif ctx == "dungeon_mode_set":
        body = nest([("asg", ("flag_SetDungeonMode", (("int", 3), ("int", 4242))))], depth, rnd)
    elif ctx == "dungeon_mode_case":
        sw = ("switch", ("SwitchDungeonMode", (("int", 5),)),
              [(("case", ("Case", (("int", 4242),))), [("op", "c1", [], None), ("ctrl", "break")]), (("default",), [("op", "c2", [], None)])])
        body = nest([sw], depth, rnd)
    elif ctx == "flag_value":
        body = nest([("asg", ("flag_Set", (("const", "$A"), ("int", 4242))))], depth, rnd)
    elif ctx == "case_menu2":
        sw = ("switch", ("message_SwitchMenu2", (("int", 1), ("int", 2))),
              [(("case", ("CaseMenu2", (("int", 4242),))), [("op", "c1", [], None), ("ctrl", "break")]), (("default",), [("op", "c2", [], None)])])
        body = nest([sw], depth, rnd)
    elif ctx == "case_value":
        sw = ("switch", ("Switch", (("const", "$V"),)),
              [(("case", ("CaseValue", (("int", 3), ("int", 4242)))), [("op", "c1", [], None), ("ctrl", "break")]), (("default",), [("op", "c2", [], None)])])
        body = nest([sw], depth, rnd)
    elif ctx == "case_plain":
        sw = ("switch", ("SwitchRandom", (("int", 9),)),
              [(("case", ("Case", (("int", 4242),))), [("op", "c1", [], None), ("ctrl", "break")]), (("default",), [("op", "c2", [], None)])])
        body = nest([sw], depth, rnd)
    elif ctx == "if_value":
        body = nest([("if", [(False, [("Branch", (("const", "$A"), ("int", 4242)))], [("op", "c1", [], None)])], None)], depth, rnd)
    else:
        raise ValueError(ctx)
    body = body + [("ctrl", "end")]
    return {"imports": [], "macros": [], "routines": [(("def", 0), body)]}


def plant(ctx, ops, values, rnd):
    """replace the marker parameter(s) by the values; returns list of (offset, param index) planted"""
    planted = []
    for r in ops:
        for op in r:
            n = op.op_code.name
            if ctx in ("ssbs_arg", "exps_arg", "exps_inline_ctx") and n == "marker_op":
                op.params = [norm.to_param(v) for v in values]
                planted += [(op.offset, i) for i in range(len(values))]
            elif ctx == "case_menu" and n == "CaseMenu" and pkey(op.params[0]) == ("str", "MARK"):
                op.params[0] = norm.to_param(values[0])
                planted.append((op.offset, 0))
            elif ctx == "msg_case_text" and n == "CaseText":
                op.params[1] = norm.to_param(values[0])
                planted.append((op.offset, 1))
            elif ctx == "msg_default_text" and n == "DefaultText":
                op.params[0] = norm.to_param(values[0])
                planted.append((op.offset, 0))
            elif ctx == "dungeon_mode_set" and n == "flag_SetDungeonMode":
                op.params[1] = norm.to_param(values[0])
                planted.append((op.offset, 1))
            elif ctx == "dungeon_mode_case" and n == "Case" and op.params[0] == 4242:
                op.params[0] = norm.to_param(values[0])
                planted.append((op.offset, 0))
            elif ctx == "case_menu2" and n == "CaseMenu2" and op.params[0] == 4242:
                op.params[0] = norm.to_param(values[0])
                planted.append((op.offset, 0))
            elif ctx == "case_value" and n == "CaseValue" and op.params[1] == 4242:
                op.params[1] = norm.to_param(values[0])
                planted.append((op.offset, 1))
            elif ctx == "case_plain" and n == "Case" and op.params[0] == 4242:
                op.params[0] = norm.to_param(values[0])
                planted.append((op.offset, 0))
            elif ctx == "if_value" and n == "Branch" and op.params[1] == 4242:
                op.params[1] = norm.to_param(values[0])
                planted.append((op.offset, 1))
            elif ctx in ("flag_value", "with_block_arg") and n == "flag_Set":
                op.params[1] = norm.to_param(values[0])
                planted.append((op.offset, 1))
    return planted


def values_for(ctx, rnd):
    if ctx in ("ssbs_arg", "exps_arg", "exps_inline_ctx"):
        return [gval_param(rnd, 1.0) for _ in range(rnd.randint(1, 3))]
    if ctx in ("case_menu", "msg_case_text", "msg_default_text"):
        if rnd.random() < 0.5:
            return [("str", gval_string(rnd, 1.0))]
        langs = rnd.sample(["english", "french", "german", "italian", "spanish"], rnd.randint(1, 3))
        return [("lang", tuple((l, gval_string(rnd, 1.0)) for l in langs))]
    if ctx in ("dungeon_mode_set", "dungeon_mode_case"):
        return [rnd.choice([("int", 0), ("int", 1), ("int", 2), ("int", 3), ("int", 4), ("int", 19), ("int", -1), ("const", "DMODE_OPEN"),
                            ("const", "SOME_CONST"), ("const", "$V")])]
    if ctx in ("case_menu2", "case_value", "case_plain", "if_value"):
        # headers take integer-like values: numbers (zero and negative ones included) and constants
        return [rnd.choice([("int", 0), ("int", 0), ("int", 1), ("int", -1), ("int", 255), ("int", 32767), ("int", -16384), ("const", "CONST_A"), ("const", "$V")])]
    # parameters of flag_* operations are numbers, constants or fixed point values
    while True:
        v = gval_param(rnd, 1.0, allow_pos=False)
        if v[0] in ("int", "const", "fp"):
            return [v]


def canon(k, ctx):
    """canonical key with the documented tolerances"""
    if k[0] == "pos":
        return ("pos", k[1], 2 if k[2] in (2, 4) else k[2], 2 if k[3] in (2, 4) else k[3], k[4], k[5])
    if ctx in ("dungeon_mode_set", "dungeon_mode_case") and k[0] == "int" and 0 <= k[1] <= 3:
        return ("const", DM_NAMES[k[1]])
    return k


def value_roundtrip(acc, ctx, depth, values, rnd, sample=False):
    from explorerscript.error import ParseError, SsbCompilerError

    prog = template(ctx, depth, rnd)
    ttext = print_program(prog).text
    c = norm.compile_exps(ttext)
    ops, _ = norm.renumber(c.routine_ops, start=rnd.choice([0, 1]))
    planted = plant(ctx, ops, values, rnd)
    if not planted:
        acc.inconc("marker-not-found", ctx)
        return
    inp = {"ctx": ctx, "depth": depth, "values": values, "template": ttext, "seed": None}
    want = {}
    for r in ops:
        for op in r:
            for (o, i) in planted:
                if op.offset == o:
                    want[(op.op_code.name, i)] = canon(pkey(op.params[i]), ctx)
    acc.announce(ctx, inp)
    fn = norm.decompile_ssbs if ctx == "ssbs_arg" else norm.decompile_exps
    monitors.drain()
    try:
        text, _ = fn(c.routine_infos, ops, c.named_coroutines)
    except Exception as e:
        acc.violation(gsig("print-raised", ctx, type(e).__name__), {"error": str(e)[:200]}, inp)
        return
    if norm.is_fallback(text):
        acc.count("fallback_texts")
    inp["printed"] = text
    try:
        c2 = norm.compile_ssbs(text) if ctx == "ssbs_arg" else norm.compile_exps(text)
    except (ParseError, SsbCompilerError, ValueError) as e:
        acc.violation(gsig("printed-text-rejected", ctx, type(e).__name__), {"error": str(e)[:200]}, inp)
        return
    except Exception as e:
        acc.violation(gsig("printed-text-crashed-compiler", ctx, type(e).__name__), {"error": str(e)[:200]}, inp)
        return
    got = {}
    names = {n for n, _ in want}
    for r in c2.routine_ops:
        for oi, op in enumerate(r):
            n = op.op_code.name
            if n in names:
                if n in ("Case", "CaseMenu", "CaseMenu2", "CaseValue"):
                    # the planted header is the first case of its switch
                    prev = r[oi - 1].op_code.name if oi else None
                    if prev not in {"Case": ("SwitchDungeonMode", "SwitchRandom"), "CaseMenu": ("message_SwitchMenu",),
                                    "CaseMenu2": ("message_SwitchMenu2",), "CaseValue": ("Switch",)}[n]:
                        continue
                for (wn, i) in want:
                    if wn == n and i < len(op.params):
                        got[(n, i)] = canon(pkey(op.params[i]), ctx)
    acc.count("values_compared", len(want))
    acc.count("ctx:" + ctx)
    acc.count(f"depth:{depth}")
    for key, w in want.items():
        g = got.get(key)
        if g != w:
            kind = w[0]
            acc.violation(gsig("value-changed", ctx, kind), {"expected": w, "got": g, "param": key}, inp)
            break
    if sample:
        acc.sample({"ctx": ctx, "depth": depth, "values": values, "printed": text[:700]})


# ------------------------------------------------------------------------------------ direction 2 (G-LIT)
def lit_integer(r):
    n = r.choice([0, 1, 7, 10, 255, 4095, 32767, 123456789])
    neg = r.random() < 0.3
    c = r.randint(0, 4)
    if c == 0:
        s = str(n)
    elif c == 1:
        s = r.choice(["0x", "0X"]) + r.choice([f"{n:x}", f"{n:X}"])
    elif c == 2:
        s = r.choice(["0o", "0O"]) + f"{n:o}"
    elif c == 3:
        s = r.choice(["0b", "0B"]) + f"{n:b}"
    else:
        n = 0
        s = "0" * r.randint(1, 4)
    return ("-" if neg else "") + s, ("int", -n if neg else n)


def lit_decimal(r):
    w = r.choice(["", "0", "00", "1", "12", "007", "63", "100"])
    f = r.choice(["0", "5", "50", "05", "125", "996", "000", "10", "0039"])
    neg = r.random() < 0.35
    s = ("-" if neg else "") + w + "." + f
    wn = w.lstrip("0") or "0"
    return s, ("fp", ("-" if neg else "") + wn + "." + f)


SL_ATOMS = ["a", "b", " ", "x y", "ü", "{", "}", "/*", "//", ";", "\\n", "\\'", '\\"', "\t", ",", "[CN]", "\\t", "\\x", "\\ "]


def lit_single(r):
    q = r.choice(["'", '"'])
    other = '"' if q == "'" else "'"
    body = "".join(r.choice(SL_ATOMS + [other]) for _ in range(r.randint(0, 7)))
    text = q + body + q
    return text, ("str", t2a.dec_single(text))


def lit_multi(r):
    q3 = r.choice(["'''", '"""'])
    oth = '"""' if q3 == "'''" else "'''"
    def line():
        return " " * r.choice([0, 0, 2, 4, 4, 6, 8]) + r.choice(["l", "line two", "", "x", "\\n kept", "it's", 'q"', oth, "  trailing  ", "ü"])
    first = r.choice(["", "", "First", "  indented first", " "])
    n = r.choice([0, 1, 2, 3, 4])
    lines = [line() for _ in range(n)]
    last = r.choice(["", "    ", "        ", "  last", "last"])
    body = "\n".join([first] + lines + [last]) if n or last or r.random() < 0.7 else first
    if body.endswith(q3[0]) or q3 in body:
        body = body.replace(q3[0], "z")
    text = q3 + body + q3
    return text, ("str", t2a.dec_multi(text))


def lit_pos(r):
    name = r.choice(["m", "Mark 1", "ü", "it\\'s", "a b"])
    q = "'"
    def arg():
        v = r.choice([0, 1, 20, 255, 3])
        neg = r.random() < 0.2
        c = r.randint(0, 4)
        sign = "-" if neg else ""
        if c == 0:
            return f"{sign}{v}", (-v if neg else v), 0
        if c == 1:
            return f"{sign}{v}.5" + "0" * r.randint(0, 2), (-v if neg else v), 2
        if c == 2:
            return f"{sign}{v}." + "0" * r.randint(1, 3), (-v if neg else v), 0
        if c == 3:
            return f"0x{v:x}", v, 0
        return f"{sign}0{v}.5", (-v if neg else v), 2
    (xs, x, xo), (ys, y, yo) = arg(), arg()
    text = f"Position<{q}{name}{q}, {xs}, {ys}>"
    return text, ("pos", t2a.dec_single(q + name + q), xo, yo, x, y)


def literal_case(acc, r, sample=False):
    from explorerscript.error import ParseError, SsbCompilerError

    kind = r.choice(["int", "dec", "single", "multi", "pos", "lang"])
    if kind == "int":
        text, want = lit_integer(r)
    elif kind == "dec":
        text, want = lit_decimal(r)
    elif kind == "single":
        text, want = lit_single(r)
    elif kind == "multi":
        text, want = lit_multi(r)
    elif kind == "pos":
        text, want = lit_pos(r)
    else:
        a, wa = lit_single(r)
        b, wb = lit_multi(r)
        text = "{ english = " + a + ", german=" + b + r.choice(["", ","]) + " }"
        want = ("lang", (("english", wa[1]), ("german", wb[1])))
    indent = "    " * r.randint(0, 3)
    # (a file saved with other line terminators has them inside its multi-line literals as well: the value is the same)
    eol = r.choice(["\n", "\n", "\r\n", "\r"]) if kind in ("multi", "lang") else "\n"
    for lang in ("exps", "ssbs"):
        src = f"def 0 {{\n{indent}lit_op({text});\n}}\n".replace("\n", eol)
        if eol != "\n":
            acc.count("literal_sources_with_other_line_terminators")
        inp = {"literal": text, "kind": kind, "lang": lang, "source": src}
        acc.announce("literal", inp)
        try:
            c = norm.compile_exps(src) if lang == "exps" else norm.compile_ssbs(src)
        except (ParseError, SsbCompilerError, ValueError) as e:
            acc.violation(gsig("literal-rejected", kind, lang), {"error": str(e)[:200]}, inp)
            continue
        except Exception as e:
            acc.violation(gsig("literal-crashed-compiler", kind, lang, type(e).__name__), {"error": str(e)[:200]}, inp)
            continue
        got = pkey(c.routine_ops[0][0].params[0])
        acc.count("literals_compared")
        acc.count("lit:" + kind)
        if got != want:
            acc.violation(gsig("literal-value", kind, lang), {"expected": want, "got": got}, inp)
        acc.case(src, True)
    if sample:
        acc.sample({"literal": text, "decoded_by_spec_rules": want})


def run_shard(shard, acc):
    monitors.install()
    rnd = random.Random(shard["seed"])
    if shard["kind"] == "literals":
        for i in range(shard["n"]):
            literal_case(acc, rnd, sample=(i < 2))
        return
    for i in range(shard["n"]):
        ctx = CONTEXTS[i % len(CONTEXTS)]
        depth = rnd.randint(0, 4)
        values = values_for(ctx, rnd)
        value_roundtrip(acc, ctx, depth, values, rnd, sample=(i < 2))
        acc.case(repr((ctx, depth, values)), True)


def summarize(agg, tier):
    c = agg["counters"]
    cov = {
        "rule": "direction 1: G-VAL values x printing context x nesting depth, planted into compiled templates, printed by the real "
                "decompilers and compiled back; direction 2: literal spellings vs my decoders; distinct by (context, depth, values) / source",
        "values_compared": c.get("values_compared", 0), "literals_compared": c.get("literals_compared", 0),
        "contexts": {k[4:]: v for k, v in c.items() if k.startswith("ctx:")},
        "depths": {k[6:]: v for k, v in c.items() if k.startswith("depth:")},
        "literal_kinds": {k[4:]: v for k, v in c.items() if k.startswith("lit:")},
    }
    floors = []
    if c.get("values_compared", 0) < 500 or c.get("literals_compared", 0) < 500:
        floors.append("too few comparisons")
    for x in CONTEXTS:
        if c.get("ctx:" + x, 0) == 0:
            floors.append("context never exercised: " + x)
    return cov, not floors, floors


def replay(inp, acc):
    monitors.install()
    if "literal" in inp:
        from explorerscript.error import ParseError, SsbCompilerError
        src = inp["source"]
        try:
            c = norm.compile_exps(src) if inp["lang"] == "exps" else norm.compile_ssbs(src)
            acc.case(src, True)
            print("compiled:", pkey(c.routine_ops[0][0].params[0]))
        except Exception as e:
            acc.violation(gsig("literal-rejected", inp["kind"], inp["lang"]), {"error": str(e)}, inp)
        return
    from vf.common import tup
    value_roundtrip(acc, inp["ctx"], inp["depth"], [tup(v) if isinstance(v, list) else v for v in inp["values"]], random.Random(0))
    acc.case(repr(inp["values"]), True)
