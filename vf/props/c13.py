"""C13 - flat structured programs decompile back to structured, jump-free text.
Workload G-FLAT: routines made of plain statements (ops, assignments, with-blocks, message switches), if/elseif/else
chains and break-terminated switches whose blocks hold only plain statements, one final terminator.
Oracle on decompile(compile(p)) by the real tools: not a fallback; the parse tree (T2A) contains no jump statement;
every plain statement of the source is printed exactly once."""
from __future__ import annotations

import random

from vf import monitors, norm, t2a
from vf.common import shard_seeds, gsig, try_compile
from vf.decomp import decompile_once, make_well_formed
from vf.esast import print_program
from vf.gen import flat_program
from vf.props.c02 import canon_dm_ast

LEVEL = "exploration"
ASSUMPTIONS = [
    "'any headers' = every switch header kind the language has syntax for (incl. the operations the decompiler knows as switches), "
    "with the case header kinds that kind of switch takes (value / operator cases, or menu cases under message_SwitchMenu)",
    "jump statements are found in the parse tree of the emitted text (T2A), not by text search; labels are allowed",
    "a dungeon-mode number 0..3 may be printed as its constant (C04); compared after canonicalisation",
]


def shards(tier, seed):
    out = []
    for s in shard_seeds(seed, 14, "C13"):
        out.append({"kind": "flat", "seed": s, "n": 60 if tier == "quick" else 1500})
    out.append({"kind": "exhaustive", "seed": seed})
    return out


def canon_labels(labels):
    from vf.env import DM_NAMES

    out = []
    for l in labels:
        if l[0] == "asg" and l[1][0] == "flag_SetDungeonMode":
            a, b = l[1][1]
            if b[0] == "int" and 0 <= b[1] <= 3:
                l = ("asg", ("flag_SetDungeonMode", (a, ("const", DM_NAMES[b[1]]))))
        out.append(l)
    return sorted(out, key=repr)


def check(acc, prog, name, sample=False):
    src = print_program(prog).text
    inp = {"name": name, "prog": prog, "source": src}
    c = try_compile(src, acc)
    if c is None:
        acc.count("source_rejected")
        return
    ops = make_well_formed(c.routine_ops)
    inp["spec"] = norm.spec_of(c.routine_infos, ops, c.named_coroutines)
    acc.announce(name, {"source": src})
    d = decompile_once(acc, c.routine_infos, ops, c.named_coroutines, "exps", seconds=20)
    acc.count("programs")
    nblocks = sum(1 for _, b in prog["routines"] for s in b if s[0] in ("if", "switch"))
    acc.case(src, nblocks >= 1)
    if d.timeout or d.exc is not None:
        acc.violation(gsig("no-answer", d.exc[0] if d.exc else "timeout"), {"exc": d.exc}, inp)
        return
    inp["text"] = d.text
    if d.fallback:
        acc.violation("fallback-for-flat-program", {"note": "SsbScript fallback instead of structured text"}, inp)
        return
    # the compiled routines as the compiler handed them over (no copy), decompiled twice: the same structured text both times
    try:
        t_a, _ = norm.decompile_exps(c.routine_infos, ops, c.named_coroutines, deep=False)
        t_b, _ = norm.decompile_exps(c.routine_infos, ops, c.named_coroutines, deep=False)
        acc.count("decompiled_twice_from_the_same_objects")
        if t_a != d.text or t_b != d.text:
            acc.violation(gsig("text-differs-when-the-same-routines-are-decompiled-again", "fallback" if norm.is_fallback(t_b) else "other"),
                          {"second": t_b[:300]}, inp)
            return
    except Exception as e:
        acc.violation(gsig("no-answer-when-the-same-routines-are-decompiled-again", type(e).__name__), {"error": str(e)[:200]}, inp)
        return
    try:
        p2 = t2a.parse_program(d.text)
    except Exception as e:
        acc.violation(gsig("text-does-not-parse", type(e).__name__), {"error": str(e)[:200]}, inp)
        return
    nj = t2a.count_statements(p2, ("jump",))
    acc.count("texts_parsed")
    acc.count("if_switch_blocks", nblocks)
    if nj:
        acc.violation(gsig("jump-statement-in-text"), {"jumps": nj}, inp)
    want = canon_labels(t2a.plain_labels(prog))
    got = canon_labels(t2a.plain_labels(canon_dm_ast(p2)))
    acc.count("plain_statements_compared", len(want))
    if want != got:
        from collections import Counter
        cw, cg = Counter(map(repr, want)), Counter(map(repr, got))
        missing = list((cw - cg).elements())[:3]
        extra = list((cg - cw).elements())[:3]
        kind = "missing" if missing and not extra else "duplicated-or-extra" if extra and not missing else "changed"
        acc.violation(gsig("plain-statements", kind), {"missing": missing, "extra": extra}, inp)
    if sample:
        acc.sample({"source": src[:600], "decompiled": d.text[:700]})


def exhaustive_small():
    """small grammar enumerated completely: one block, and all ordered pairs of blocks, of every listed shape"""
    import itertools

    def blocks(b):
        def u(n):
            return ("op", f"op_{b + n}", [("int", b + n)], None)

        def c(n, kind=0):
            v = ("const", "$A")
            if kind == 0:
                return ("Branch", (v, ("int", b + n)))
            return ("BranchBit", (v, ("int", b + n)))

        sw = ("Switch", (("int", b + 50),))
        case = lambda n: ("case", ("Case", (("int", b + n),)))
        out = []
        for neg in (False, True):
            for nc in (1, 2):
                conds = [c(10 + i, i) for i in range(nc)]
                out.append(("if", [(neg, conds, [u(1)])], None))
                out.append(("if", [(neg, conds, [])], None))
                out.append(("if", [(neg, conds, [u(1)])], [u(2)]))
                out.append(("if", [(neg, conds, [u(1), u(3)]), (not neg, [c(20)], [u(2)])], None))
                out.append(("if", [(neg, conds, [u(1)]), (neg, [c(20)], [])], [u(4)]))
                out.append(("if", [(neg, conds, [])], []))
        out.append(("switch", sw, [(case(1), [u(1), ("ctrl", "break")]), (case(2), [u(2), ("ctrl", "break")])]))
        out.append(("switch", sw, [(case(1), [u(1), ("ctrl", "break")]), (("default",), [u(2), ("ctrl", "break")])]))
        out.append(("switch", sw, [(case(1), []), (case(2), [u(1), u(2), ("ctrl", "break")]), (("default",), [u(3), ("ctrl", "break")])]))
        out.append(("switch", sw, [(("default",), [u(3), ("ctrl", "break")]), (case(2), [u(1), ("ctrl", "break")])]))
        out.append(("switch", ("SwitchSector", ()), [(("case", ("CaseValue", (("int", 3), ("int", b + 1)))), [u(1), ("ctrl", "break")])]))
        out.append(("switch", ("message_SwitchMenu", (("int", b + 1), ("int", 2))),
                    [(("case", ("CaseMenu", (("str", f"a{b}"),))), [u(1), ("ctrl", "break")]),
                     (("case", ("CaseMenu2", (("int", b + 7),))), [u(2), ("ctrl", "break")])]))
        return out

    A, B = blocks(100), blocks(200)
    pad = lambda n: ("op", f"op_{n}", [("int", n)], None)
    for term in ("return", "end", "hold"):
        for blk in A:
            yield [pad(900), blk, pad(901), ("ctrl", term)]
    for x, y in itertools.product(A, B):
        yield [x, y, ("ctrl", "end")]


def run_shard(shard, acc):
    monitors.install()
    if shard["kind"] == "exhaustive":
        for i, body in enumerate(exhaustive_small()):
            check(acc, {"imports": [], "macros": [], "routines": [(("def", 0), list(body))]}, f"exh{i}")
            acc.count("exhaustive_programs")
        return
    rnd = random.Random(shard["seed"])
    for i in range(shard["n"]):
        prog = flat_program(random.Random(rnd.randrange(1 << 40)))
        check(acc, prog, f"flat{i}", sample=(i == 0))


def summarize(agg, tier):
    c = agg["counters"]
    cov = {
        "rule": "flat structured programs (random + a small grammar enumerated completely: one or two blocks of every listed shape); "
                "distinct by source text; non-trivial = at least one if / switch block",
        "programs": c.get("programs", 0), "exhaustive_programs": c.get("exhaustive_programs", 0),
        "if_switch_blocks": c.get("if_switch_blocks", 0), "plain_statements_compared": c.get("plain_statements_compared", 0),
    }
    floors = []
    if c.get("texts_parsed", 0) < 300:
        floors.append("fewer than 300 decompiled texts inspected")
    return cov, not floors, floors


def replay(inp, acc):
    from vf.common import prog_from_json
    monitors.install()
    check(acc, prog_from_json(inp["prog"]), inp.get("name"))
