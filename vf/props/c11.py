"""C11 - results depend only on the input, not on what was processed before.
Recorded-history checker: every call of a random history (compile with fresh / reused compiler objects, both decompilers
with fresh / re-used input objects, failing inputs, repeated inputs, garbage collection and graph allocation bursts in
between) is compared with the golden record of the same input computed by a fresh interpreter on the current tree.
K-CACHE watches the module-level memo of graph_utils for entries inherited through a recycled id()."""
from __future__ import annotations

import json
import random
import shutil
import tempfile

from vf import hist, monitors, norm
from vf.common import shard_seeds, gsig

LEVEL = "exploration"
ASSUMPTIONS = [
    "a result = ops with raw offsets, routine tables, serialised source map, macro names, imports (compile); text and serialised "
    "source map (decompile); the exception type for failing calls (messages are recorded: the wording of ANTLR syntax errors depends on "
    "the state of its prediction caches, which the property does not speak about)",
    "fresh-process goldens are computed on the same tree with PYTHONHASHSEED 0 and (for a share of the inputs) a random hash seed",
    "id() recycling is provoked, not forced: the evidence counts how often a recycled graph id was actually seen by K-CACHE",
]


def shards(tier, seed):
    q = tier == "quick"
    return [{"seed": s, "pool": 28 if q else 120, "histories": 10 if q else 150, "maxlen": 14 if q else 30, "tier": tier}
            for s in shard_seeds(seed, 16, "C11")]


def gen_history(rnd, pool, maxlen):
    steps = []
    n = rnd.randint(3, maxlen)
    ncomp = rnd.randint(1, 3)
    for i in range(n):
        if steps and rnd.random() < 0.25:
            j = steps[-1]["job"] if rnd.random() < 0.6 else rnd.choice(steps)["job"]
        else:
            j = rnd.randrange(len(pool))
        st = {"job": j, "churn": rnd.randrange(1 << 30)}
        if pool[j]["k"] == "compile":
            st["compiler"] = rnd.randrange(ncomp) if rnd.random() < 0.6 else None
            if pool[j].get("libs") and rnd.random() < 0.4:
                # an imported file is missing for one compilation (it fails), then it is there again: the next compilation on the
                # same compiler object has to give what a fresh process gives
                st["compiler"] = st["compiler"] if st["compiler"] is not None else 0
                steps.append({"job": j, "churn": rnd.randrange(1 << 30), "compiler": st["compiler"] if rnd.random() < 0.5 else None,
                              "hide": rnd.choice(pool[j]["libs"]), "overwrite": rnd.random() < 0.5})
            if pool[j].get("provider") is not None and rnd.random() < 0.7:
                # first the program that defines the macros, then, on the same compiler object, the one that only calls them
                st["compiler"] = st["compiler"] if st["compiler"] is not None else 0
                steps.append({"job": pool[j]["provider"], "churn": rnd.randrange(1 << 30), "compiler": st["compiler"]})
        else:
            st["shared"] = rnd.random() < 0.5
            st["plant"] = rnd.random() < 0.3  # this call's graphs inherit stale memo entries (see vf/hist.py KCache)
        steps.append(st)
    return steps


class Runner:
    def __init__(self, acc, pool, gold, replay_base):
        self.acc = acc
        self.pool = pool
        self.gold = gold
        self.trace = []  # every step executed in this process (for the replay)
        self.replay_base = replay_base
        self.shared = {}
        self.lookup_lists = {}
        self.prev_cls = None

    def run_history(self, steps):
        from explorerscript.ssb_converting.ssb_compiler import ExplorerScriptSsbCompiler
        from vf.env import PPL

        acc = self.acc
        compilers = {}
        for st in steps:
            job = self.pool[st["job"]]
            hist.churn(random.Random(st["churn"]))
            self.trace.append(st)
            inp = dict(self.replay_base, steps=list(self.trace), observed=job)
            acc.announce("call", {"job": job["id"], "k": job["k"]})
            comp = objs = None
            mode = "plain"
            if job["k"] == "compile":
                if st.get("compiler") is not None:
                    if st["compiler"] not in compilers:
                        compilers[st["compiler"]] = ExplorerScriptSsbCompiler(PPL, list(job.get("lookup") or []))
                    else:
                        mode = "reused-compiler"
                        acc.count("calls_on_reused_compiler")
                    comp = compilers[st["compiler"]]
                    comp.lookup_paths = list(job.get("lookup") or [])
                if job.get("lookup_shared"):
                    # the caller keeps one list of lookup paths and hands the same object to every compiler it makes
                    lst = self.lookup_lists.setdefault(tuple(job["lookup"]), list(job["lookup"]))
                    if comp is None:
                        comp = ExplorerScriptSsbCompiler(PPL, lst)
                    else:
                        comp.lookup_paths = lst
                    acc.count("calls_with_a_lookup_list_shared_between_compilers")
            elif st.get("shared"):
                if st["job"] in self.shared:
                    mode = "input-objects-handed-in-again"
                    acc.count("calls_with_reused_input_objects")
                else:
                    self.shared[st["job"]] = hist.build_input(job)
                objs = self.shared[st["job"]]
            if st.get("hide"):
                import os
                hidden = st["hide"] + ".hidden"
                try:
                    os.rename(st["hide"], hidden)
                    if st.get("overwrite"):
                        # ... or it has other content for one compilation (somebody edits it and changes it back)
                        with open(st["hide"], "w", encoding="utf-8") as f:
                            f.write("macro something_else() {\n    edited();\n}\n")
                except OSError:
                    hidden = None
                try:
                    hist.compute(job, compiler=comp, objs=objs)
                finally:
                    if hidden:
                        os.replace(hidden, st["hide"])
                acc.count("calls_with_an_imported_file_missing")
                continue
            hist.KCACHE.plant = bool(st.get("plant"))
            try:
                res = hist.compute(job, compiler=comp, objs=objs)
            finally:
                hist.KCACHE.plant = False
            if st.get("plant"):
                acc.count("calls_with_stale_memo_planted")
            acc.count("calls_observed")
            acc.count("calls:" + job["k"])
            if not res.get("ok"):
                acc.count("calls_that_raised")
            acc.add_to_set("transitions", f"{self.prev_cls}->{job['cls']}")
            self.prev_cls = job["cls"] + ("!" if not res.get("ok") else "")
            for ev in hist.KCACHE.drain():
                acc.violation(gsig("memo-entry-inherited-through-recycled-id"), ev, inp)
            for name, val in hist.class_level_state_problems():
                acc.violation(gsig("class-level-state-written", name), {"value": val}, inp)
            if job["k"] != "compile" and not res.get("input_unchanged"):
                acc.violation(gsig("decompilation-altered-its-input", job["k"]), res.get("input_change"), inp)
            g = self.gold.get(job["id"], {}).get("0")
            if g is None:
                acc.count("calls_without_golden")
                continue
            diff = hist.diff_fields(g, res)
            if diff == ["msg"]:
                # same exception type, other wording (the ANTLR runtime words a syntax error differently once its prediction
                # caches are warm): the property speaks of ops, text and source maps, so this is recorded, not judged
                acc.count("same_exception_other_message")
                acc.add_to_set("message_variants", (g["msg"][:80], res["msg"][:80]))
                diff = []
            if diff:
                acc.violation(gsig("result-differs-from-fresh-process", job["k"], "+".join(diff), mode),
                              {"fields": diff, "mode": mode, "fresh": {k: _short(g.get(k)) for k in diff}, "here": {k: _short(res.get(k)) for k in diff},
                               "history_position": len(self.trace)}, inp)


def _short(x):
    s = x if isinstance(x, str) else json.dumps(x, default=repr)
    return s[:600]


def run_shard(shard, acc, forced_trace=None):
    monitors.install()
    hist.KCACHE.install()
    hist.install_class_state_probe()
    rnd = random.Random(shard["seed"] ^ 11)
    scratch = tempfile.mkdtemp(prefix="verif_c11_")
    try:
        pool = hist.make_pool(shard["seed"], shard["pool"], scratch)
        seeds = ("0", "random") if shard.get("tier") == "thorough" else ("0",)
        gold = hist.goldens(pool, hashseeds=seeds, threads=2)
        if shard.get("tier") != "thorough":
            extra = hist.goldens(pool[::3], hashseeds=("random",), threads=2)
            for k, v in extra.items():
                gold[k].update(v)
        special = [j for j in pool if j.get("hashseeds")]
        # (each "random#k" key is a separate fresh process with its own random hash seed)
        clones = [dict(j, id=f"{j['id']}#{k}") for j in special for k in range(j["hashseeds"])]
        for cid, v in hist.goldens(clones, hashseeds=("random",), threads=4).items():
            jid, k = cid.split("#")
            gold[int(jid)][f"random#{k}"] = v["random"]
        for j in pool:
            rs = gold[j["id"]]
            acc.count("fresh_processes", len(rs))
            if any(v is None for v in rs.values()):
                acc.inconc("fresh-process-failed", {"job": j["id"], "k": j["k"], "cls": j["cls"]})
                gold[j["id"]] = {}
                continue
            base = rs["0"]
            for h, r in rs.items():
                if hist.diff_fields(base, r):
                    acc.violation(gsig("fresh-processes-disagree", j["k"], "+".join(hist.diff_fields(base, r))),
                                  {"hashseed": h, "fields": hist.diff_fields(base, r)}, {"pool": {"seed": shard["seed"], "n": shard["pool"]}, "observed": j, "steps": []})
            acc.case(json.dumps(j, sort_keys=True), True)
            acc.count("pool:" + j["k"] + ":" + ("ok" if base.get("ok") else "raises"))
            if base.get("ok") and j["k"] == "decompile_exps" and norm.is_fallback(base["text"]):
                acc.count("pool:decompile_exps:fallback")
        hist.KCLOCK.install()  # (after the pool was built and the fresh processes have answered: only the histories see the skewed clocks)
        runner = Runner(acc, pool, gold, {"pool": {"seed": shard["seed"], "n": shard["pool"]}})
        if forced_trace is not None:
            runner.run_history(forced_trace)
            return
        for h in range(shard["histories"]):
            steps = gen_history(rnd, pool, shard["maxlen"])
            acc.count("histories")
            acc.case(json.dumps(steps, sort_keys=True), len(steps) > 1)
            runner.run_history(steps)
            hist.KCACHE.scan()
        for k, v in hist.KCACHE.counts.items():
            acc.count("K-CACHE:" + k, v)
        acc.count("K-CLOCK:clock_readings_by_repository_code", hist.KCLOCK.reads)
        for k, v in hist.KCLOCK.sites.items():
            acc.count("K-CLOCK:site:" + k, v)
        acc.sample({"history": steps[:6], "pool_classes": sorted({j["cls"] for j in pool})})
    finally:
        shutil.rmtree(scratch, ignore_errors=True)


def summarize(agg, tier):
    c = agg["counters"]
    kc = {k[8:]: v for k, v in c.items() if k.startswith("K-CACHE:")}
    cov = {
        "rule": "a history = a sequence of calls in one process (distinct by its step list); every call of every history is compared with "
                "the fresh-process golden of its input; pool inputs distinct by content",
        "histories": c.get("histories", 0), "calls_observed": c.get("calls_observed", 0), "calls_that_raised": c.get("calls_that_raised", 0),
        "calls_on_reused_compiler": c.get("calls_on_reused_compiler", 0), "calls_with_reused_input_objects": c.get("calls_with_reused_input_objects", 0),
        "fresh_processes": c.get("fresh_processes", 0),
        "pool": {k[5:]: v for k, v in c.items() if k.startswith("pool:")},
        "distinct_transitions(previous class -> observed class)": len(agg.get("sets", {}).get("transitions", [])),
        "K-CACHE": kc,
        "K-CLOCK": {"histories_run_with_skewed_clocks": c.get("histories", 0),
                    "clock_readings_by_repository_code (each answered one hour ahead of the previous one)": c.get("K-CLOCK:clock_readings_by_repository_code", 0),
                    "sites": {k[13:]: v for k, v in c.items() if k.startswith("K-CLOCK:site:")}},
        "sub_claims": {
            "memo entries of a dead graph never answer a lookup": "held on the recycled ids seen" if kc.get("recycled-graph-id-seen", 0) else "not reached (no recycled graph id was seen)",
        },
    }
    floors = []
    if c.get("calls_observed", 0) < 300:
        floors.append("fewer than 300 observed calls")
    if c.get("calls_on_reused_compiler", 0) < 20 or c.get("calls_with_reused_input_objects", 0) < 20:
        floors.append("too few calls on reused compilers / re-used input objects")
    if kc.get("lookups", 0) == 0:
        floors.append("K-CACHE never saw a lookup")
    if kc.get("recycled-graph-id-seen", 0) == 0:
        floors.append("no recycled graph id was seen by K-CACHE")
    return cov, not floors, floors


def replay(inp, acc):
    shard = {"seed": inp["pool"]["seed"], "pool": inp["pool"]["n"], "histories": 0, "maxlen": 0, "tier": "quick"}
    run_shard(shard, acc, forced_trace=inp.get("steps") or [])
