"""C15 - the compile CLI prints what the decompile CLI (and the docs) expect.
Workload: G-EXPS / G-MACRO programs (esp. with dropped ops -> offset gaps) written to a scratch tree and compiled by
`python -m explorerscript.cli.compile` (with --lookup / --source-map), and JSON documents written from
docs/cli_api_usage.rst (all routine types incl. COROUTINE, all argument types, position marks with numeric and "10.5"
coordinates) fed to `python -m explorerscript.cli.decompile`. Real subprocesses; stdout / stderr / status recorded and
checked offline."""
from __future__ import annotations

import json
import os
import random
import shutil
import subprocess
import sys
import tempfile

from vf import monitors, norm, t2a
from vf.common import exps_workload, shard_seeds, gsig, compare_lts
from vf.decomp import well_formed_problem, dm_tol
from vf.env import PY, REPO, PPL, DM_NAMES
from vf.esast import print_program, ref_lts, RefError
from vf.lts import ssb_lts, JUMP_IDX, pkey, MalformedSsb
from vf.macrogen import macro_workload
from vf.props.c02 import canon_dm_ops, canon_dm_ast
from vf.ssbgen import random_ssb

LEVEL = "exploration"
ASSUMPTIONS = [
    "the JSON structure is the one described in docs/cli_api_usage.rst (transcribed into a JSON Schema below)",
    "behaviour of the decompile command's output is compared with the source through M-REF(T2A(stdout)) (fallback texts through the "
    "real compiler and M-SSB); a mismatch that the decompiler API shows identically on my own reading of the same document is the "
    "decompiler's (C02's subject, findings K04/K05) and is only counted here",
]
SETTINGS = {"settings": {"performance_progress_list_var_name": PPL,
                         "dungeon_mode_constants": {"open": DM_NAMES[1], "closed": DM_NAMES[0], "request": DM_NAMES[2], "open_request": DM_NAMES[3]}}}

PARAM = {"oneOf": [
    {"type": "integer"},
    {"type": "object", "required": ["type", "value"], "additionalProperties": False, "properties": {
        "type": {"enum": ["FIXED_POINT", "CONSTANT", "CONST_STRING", "LANG_STRING", "POSITION_MARK"]}, "value": {}},
     "allOf": [
         {"if": {"properties": {"type": {"const": "FIXED_POINT"}}}, "then": {"properties": {"value": {"type": "string"}}}},
         {"if": {"properties": {"type": {"const": "CONSTANT"}}}, "then": {"properties": {"value": {"type": "string"}}}},
         {"if": {"properties": {"type": {"const": "CONST_STRING"}}}, "then": {"properties": {"value": {"type": "string"}}}},
         {"if": {"properties": {"type": {"const": "LANG_STRING"}}}, "then": {"properties": {"value": {"type": "object", "additionalProperties": {"type": "string"}}}}},
         {"if": {"properties": {"type": {"const": "POSITION_MARK"}}}, "then": {"properties": {"value": {
             "type": "object", "required": ["name", "x", "y"], "properties": {"name": {"type": "string"}}}}}},
     ]}]}
SCHEMA = {"type": "object", "required": ["settings", "routines"], "properties": {
    "settings": {"type": "object", "required": ["performance_progress_list_var_name", "dungeon_mode_constants"], "properties": {
        "performance_progress_list_var_name": {"type": "string"},
        "dungeon_mode_constants": {"type": "object", "required": ["open", "closed", "request", "open_request"]}}},
    "routines": {"type": "array", "items": {"type": "object", "required": ["type", "ops"], "properties": {
        "type": {"enum": ["COROUTINE", "GENERIC", "ACTOR", "OBJECT", "PERFORMER"]},
        "name": {"type": "string"}, "target_id": {"type": ["integer", "string"]},
        "ops": {"type": "array", "items": {"type": "object", "required": ["opcode", "params"], "additionalProperties": False,
                                           "properties": {"opcode": {"type": "string"}, "params": {"type": "array", "items": PARAM}}}}},
        "allOf": [{"if": {"properties": {"type": {"const": "COROUTINE"}}}, "then": {"required": ["name"]}},
                  {"if": {"properties": {"type": {"enum": ["ACTOR", "OBJECT", "PERFORMER"]}}}, "then": {"required": ["target_id"]}}]}}}}


def shards(tier, seed):
    q = tier == "quick"
    out = []
    for s in shard_seeds(seed, 8, "C15a"):
        out.append({"kind": "compile", "seed": s, "n": 4 if q else 60})
    for s in shard_seeds(seed, 2, "C15m"):
        out.append({"kind": "compile_macro", "seed": s, "n": 3 if q else 40})
    for s in shard_seeds(seed, 4, "C15d"):
        out.append({"kind": "documents", "seed": s, "n": 8 if q else 80})
    for s in shard_seeds(seed, 2, "C15i"):
        out.append({"kind": "invalid", "seed": s, "n": 3 if q else 40})
    return out


def run_cli(mod, args, cwd):
    env = dict(os.environ, PYTHONPATH=REPO, PYTHONHASHSEED="0", PYTHONWARNINGS="ignore")
    return subprocess.run([PY, "-m", mod] + args, cwd=cwd, env=env, capture_output=True, text=True, timeout=120)


def param_json_key(p):
    """canonical key of a JSON parameter (for comparison with the API result)"""
    if isinstance(p, int):
        return ("int", p)
    t, v = p["type"], p["value"]
    if t == "FIXED_POINT":
        return ("fp", v)
    if t == "CONSTANT":
        return ("const", v)
    if t == "CONST_STRING":
        return ("str", v)
    if t == "LANG_STRING":
        return ("lang", tuple(v.items()))
    def half(s):
        s = str(s)
        return (int(s.split(".")[0]), 2 if s.endswith(".5") else 0)
    (x, xo), (y, yo) = half(v["x"]), half(v["y"])
    return ("pos", v["name"], xo, yo, x, y)


def check_compile_output(acc, doc, c, inp):
    """doc: parsed stdout of the compile CLI; c: API compilation of the same source"""
    import jsonschema
    try:
        jsonschema.validate(doc, SCHEMA)
    except jsonschema.ValidationError as e:
        acc.violation(gsig("json-structure", list(e.absolute_path)[-1] if e.absolute_path else "root"), {"error": e.message[:200]}, inp)
        return False
    if doc["settings"] != SETTINGS["settings"]:
        acc.violation("settings-not-echoed", {"got": doc["settings"]}, inp)
    pos = {}
    n = 0
    for r in c.routine_ops:
        for op in r:
            n += 1
            pos[op.offset] = n
    if len(doc["routines"]) != len(c.routine_ops):
        acc.violation("routine-count", {"expected": len(c.routine_ops), "got": len(doc["routines"])}, inp)
        return False
    infos = norm.infos(c.routine_infos, c.named_coroutines)
    for ri, (jr, r) in enumerate(zip(doc["routines"], c.routine_ops)):
        kind, linked, lname, cname = infos[ri]
        want_t = {"type": kind}
        if jr["type"] != kind or (kind == "COROUTINE" and jr.get("name") != cname) or \
                (kind in ("ACTOR", "OBJECT", "PERFORMER") and jr.get("target_id") != (lname if linked == -1 else linked)):
            acc.violation(gsig("routine-header", kind), {"routine": ri, "got": {k: jr.get(k) for k in ("type", "name", "target_id")}, "api": infos[ri]}, inp)
            return False
        if len(jr["ops"]) != len(r):
            acc.violation("op-count", {"routine": ri}, inp)
            return False
        for jo, op in zip(jr["ops"], r):
            want = [pkey(p) for p in op.params]
            name = op.op_code.name
            if name in JUMP_IDX and op.params and isinstance(op.params[-1], int):
                want[-1] = ("int", pos[op.params[-1]])
                acc.count("jump_params_checked")
            got = [param_json_key(p) for p in jo["params"]]
            if jo["opcode"] != name or got != want:
                kindsig = "jump-target" if name in JUMP_IDX and got[:-1] == want[:-1] and jo["opcode"] == name else "op"
                acc.violation(gsig(kindsig, name), {"routine": ri, "expected": [name, want], "got": [jo["opcode"], got]}, inp)
                return False
    return True


def settings_cases(acc, root, text):
    """Settings documents that lack a documented key: whenever the compile command nevertheless exits 0, what it printed must have
    the documented structure and must be accepted by the decompile command (the complete document is the control)."""
    import copy
    import jsonschema
    os.makedirs(root, exist_ok=True)
    with open(os.path.join(root, "main.exps"), "w", encoding="utf-8") as f:
        f.write(text)
    variants = [("complete", SETTINGS)]
    for k in ("open", "closed", "request", "open_request"):
        v = copy.deepcopy(SETTINGS)
        del v["settings"]["dungeon_mode_constants"][k]
        variants.append(("without-" + k, v))
    v = copy.deepcopy(SETTINGS); del v["settings"]["dungeon_mode_constants"]; variants.append(("without-dungeon_mode_constants", v))
    v = copy.deepcopy(SETTINGS); del v["settings"]["performance_progress_list_var_name"]; variants.append(("without-ppl", v))
    v = copy.deepcopy(SETTINGS); v["settings"]["dungeon_mode_constants"] = {"open": "A"}; variants.append(("only-open", v))
    for vname, st in variants:
        with open(os.path.join(root, "settings.json"), "w") as f:
            json.dump(st, f)
        inp = {"name": "settings:" + vname, "text": text, "settings_document": st}
        acc.announce("compile-cli-settings", inp)
        p = run_cli("explorerscript.cli.compile", ["main.exps", "--settings", "settings.json"], root)
        acc.count("settings_variants_run")
        if vname == "complete" and p.returncode != 0:
            acc.violation("exit-status|complete-settings-refused", {"status": p.returncode, "stderr": p.stderr[-300:]}, inp)
            continue
        if p.returncode != 0:
            acc.count("incomplete_settings_refused")
            if p.stdout.strip():
                acc.violation("output-on-failure", {"stdout": p.stdout[:200]}, inp)
            continue
        try:
            doc = json.loads(p.stdout)
            jsonschema.validate(doc, SCHEMA)
        except Exception as e:
            acc.violation(gsig("exit-0-without-the-documented-structure", vname), {"error": str(e)[:300], "stdout": p.stdout[:200]}, inp)
            continue
        with open(os.path.join(root, "ssb.json"), "w") as f:
            f.write(p.stdout)
        d = run_cli("explorerscript.cli.decompile", ["ssb.json"], root)
        if d.returncode != 0:
            acc.violation(gsig("compile-output-refused-by-decompile", vname), {"status": d.returncode, "stderr": d.stderr[-300:]}, inp)


def compile_case(acc, root, main_rel, lookup_rel, prog_for_ref, macros_for_ref, inp, structured, rnd):
    with open(os.path.join(root, "settings.json"), "w") as f:
        json.dump(SETTINGS, f)
    args = [main_rel, "--settings", "settings.json"]
    if lookup_rel:
        args += ["--lookup"] + lookup_rel
    smp = None
    if rnd.random() < 0.5:
        smp = "out.sm"
        args += ["--source-map", smp]
    acc.announce("compile-cli", inp)
    p = run_cli("explorerscript.cli.compile", args, root)
    acc.count("compile_cli_runs")
    main_abs = os.path.join(root, main_rel)
    with open(main_abs, encoding="utf-8") as f:
        text = f.read()
    from explorerscript.error import ParseError, SsbCompilerError
    try:
        c = norm.compile_exps(text, main_abs, [os.path.join(root, l) for l in lookup_rel])
        api_ok = True
    except (ParseError, SsbCompilerError, ValueError):
        api_ok = False
    if api_ok and any(i is None for i in c.routine_infos) and p.returncode != 0:
        # gaps in the routine ids (`def 99 { .. }`): the compiler fills the table with None entries, which the documented JSON
        # structure cannot express; the command failing (without output) is not a wrong exit status
        acc.count("results_not_expressible_in_the_documented_json")
        if p.stdout.strip():
            acc.violation("output-on-failure", {"stdout": p.stdout[:200]}, inp)
        return
    if api_ok != (p.returncode == 0):
        acc.violation(gsig("exit-status", "api-ok" if api_ok else "api-rejects"), {"status": p.returncode, "stderr": p.stderr[-300:]}, inp)
        return
    if not api_ok:
        if p.stdout.strip():
            acc.violation("output-on-failure", {"stdout": p.stdout[:200]}, inp)
        acc.count("compile_cli_failures_agree")
        return
    try:
        doc = json.loads(p.stdout)
    except Exception as e:
        acc.violation("stdout-not-json", {"error": str(e), "stdout": p.stdout[:200]}, inp)
        return
    gaps = False
    offs = [op.offset for r in c.routine_ops for op in r]
    if offs and max(offs) - min(offs) + 1 != len(offs):
        gaps = True
        acc.count("programs_with_offset_gaps")
    acc.case(text, gaps)
    if not check_compile_output(acc, doc, c, inp):
        return
    if smp:
        from explorerscript.source_map import SourceMap
        try:
            with open(os.path.join(root, smp)) as f:
                sm = SourceMap.deserialize(f.read())
            if {k for k, _ in sm} != {k for k, _ in c.source_map}:
                acc.violation("source-map-file-differs", {}, inp)
            acc.count("source_map_files_checked")
        except Exception as e:
            acc.violation("source-map-file-unreadable", {"error": str(e)[:100]}, inp)
    # the decompile command reads its input as UTF-8 wherever it runs: what the compile command prints must not depend on the
    # encoding of the terminal / pipe it prints to (Windows code pages, the C locale)
    nonascii = any(ord(ch) > 127 for ch in text)
    if nonascii or rnd.random() < 0.15:
        enc = rnd.choice(["cp1252", "ascii", "latin-1"])
        env = {k: v for k, v in os.environ.items() if not k.startswith("LC_") and k not in ("LANG", "LANGUAGE")}
        env.update(PYTHONPATH=REPO, PYTHONHASHSEED="0", PYTHONWARNINGS="ignore", PYTHONIOENCODING=enc, LC_ALL="C", PYTHONUTF8="0",
                   PYTHONCOERCECLOCALE="0")
        sm_args = [a for a in args if a not in ("--source-map", smp)]
        p2 = subprocess.run([PY, "-m", "explorerscript.cli.compile"] + sm_args, cwd=root, env=env, capture_output=True, timeout=120)
        acc.count("compile_cli_runs")
        acc.count("compile_cli_runs_with_another_output_encoding")
        if nonascii:
            acc.count("compile_cli_runs_with_another_output_encoding_on_non_ascii_sources")
        if p2.returncode != 0 or p2.stdout.strip() != p.stdout.strip().encode("utf-8"):
            acc.violation(gsig("compile-cli-output-depends-on-the-output-encoding", enc, "status" if p2.returncode else "bytes"),
                          {"encoding": enc, "status": p2.returncode, "stderr": p2.stderr[-300:].decode("ascii", "replace")}, inp)
            return
    # feed the output to the decompile CLI
    with open(os.path.join(root, "ssb.json"), "w") as f:
        f.write(p.stdout)
    d = run_cli("explorerscript.cli.decompile", ["ssb.json"], root)
    acc.count("decompile_cli_runs")
    inp2 = dict(inp, compile_stdout=p.stdout[:4000])
    if d.returncode != 0:
        acc.violation(gsig("decompile-cli-rejects-compile-cli-output", d.stderr.strip().split("\n")[-1][:60]), {"stderr": d.stderr[-400:]}, inp2)
        return
    if prog_for_ref is None:
        acc.count("chain_accepted_only")
        return
    try:
        src = ref_lts(canon_dm_ast(prog_for_ref), macros=macros_for_ref)
    except RefError:
        acc.count("chain_accepted_only")
        return

    def behaviour(text):
        """behaviour of an emitted text: structured text through T2A + M-REF, fallback text through the real compiler + M-SSB"""
        if norm.is_fallback(text):
            acc.count("chain_fallback_texts")
            return ssb_lts(canon_dm_ops(norm.compile_exps(text).routine_ops))
        return ref_lts(canon_dm_ast(t2a.parse_program(text)))

    try:
        got = behaviour(d.stdout)
        cli_bad = compare_lts(acc, src, got, "chain", tol=dm_tol)
        cli_sig = cli_bad[0][1] if cli_bad else None
    except Exception as e:
        cli_bad, cli_sig = [(-1, gsig("decompile-cli-output-unreadable", type(e).__name__), {"error": str(e)[:200], "text": d.stdout[:600]})], "unreadable"
    acc.count("chains_compared")
    if not cli_bad:
        return
    # Is the decompiler itself (C02's subject) responsible? Decompile my own reading of the document through the API.
    try:
        infos2, ops2, named2 = norm.make_ops(spec_from_doc(doc))
        api_text, _ = norm.decompile_exps(infos2, ops2, named2)
        api_bad = compare_lts(acc, src, behaviour(api_text), "chain", tol=dm_tol)
        api_sig = api_bad[0][1] if api_bad else None
    except Exception as e:
        api_sig = "unreadable"
    if api_sig == cli_sig:
        acc.count("chain_mismatch_in_decompiler_scope(C02)")
        return
    ri, sig, w = cli_bad[0]
    acc.violation(sig, dict(w, routine=ri, api_chain=api_sig), dict(inp2, decompiled=d.stdout[:3000]))


def spec_from_doc(doc):
    """my reading of a document per docs/cli_api_usage.rst: the n-th op of the file is op n, jump parameters are such numbers"""
    n = 0
    routines = []
    for r in doc["routines"]:
        ops = []
        for o in r["ops"]:
            n += 1
            ops.append((n, o["opcode"], [param_json_key(p) for p in o["params"]]))
        routines.append({"kind": r["type"], "target": r.get("target_id"), "name": r.get("name"), "ops": ops})
    return {"routines": routines}


def coincidence_variant(prog):
    """prog with one integer literal of a Branch* / Case* op replaced by the internal offset of that op's jump target"""
    try:
        c = norm.compile_exps(print_program(prog).text)
    except Exception:
        return None
    lits = {}

    def collect(x):
        if isinstance(x, tuple):
            if len(x) == 2 and x[0] == "int" and isinstance(x[1], int):
                lits[x[1]] = lits.get(x[1], 0) + 1
            for y in x:
                collect(y)
        elif isinstance(x, (list, dict)):
            for y in (x.values() if isinstance(x, dict) else x):
                collect(y)

    collect(prog)
    offs = {op.offset for r in c.routine_ops for op in r}
    for r in c.routine_ops:
        for op in r:
            name = op.op_code.name
            if name in JUMP_IDX and name not in ("Jump", "Call") and isinstance(op.params[-1], int):
                tgt = op.params[-1]
                for p in op.params[:-1]:
                    # a literal that occurs once in the source, is not an offset itself and is no operator code
                    if isinstance(p, int) and not isinstance(p, bool) and lits.get(p) == 1 and p > 12 and tgt not in lits and tgt > 12:
                        def repl(x):
                            if isinstance(x, tuple):
                                if x == ("int", p):
                                    return ("int", tgt)
                                return tuple(repl(y) for y in x)
                            if isinstance(x, list):
                                return [repl(y) for y in x]
                            if isinstance(x, dict):
                                return {k: repl(v) for k, v in x.items()}
                            return x
                        return repl(prog)
    return None


def doc_from_spec(spec, rnd):
    """JSON document per docs/cli_api_usage.rst from an SSB spec (jump targets as 1-based positions)"""
    pos = {}
    n = 0
    for r in spec["routines"]:
        for o in r["ops"]:
            n += 1
            pos[o[0]] = n

    def par(p, name, i, ops_len):
        if isinstance(p, int):
            return p
        k = p[0]
        if k == "int":
            return p[1]
        if k == "fp":
            return {"type": "FIXED_POINT", "value": p[1]}
        if k == "const":
            return {"type": "CONSTANT", "value": p[1]}
        if k == "str":
            return {"type": "CONST_STRING", "value": p[1]}
        if k == "lang":
            return {"type": "LANG_STRING", "value": dict(p[1])}
        def coord(v, off):
            if off:
                return f"{v}.5" if rnd.random() < 0.6 else float(f"{v}.5")
            return rnd.choice([v, str(v)])
        return {"type": "POSITION_MARK", "value": {"name": p[1], "x": coord(p[4], p[2]), "y": coord(p[5], p[3])}}

    routines = []
    for r in spec["routines"]:
        ops = []
        for off, name, ps in r["ops"]:
            jp = [par(p, name, i, len(ps)) for i, p in enumerate(ps)]
            if name in JUMP_IDX and len(jp) > JUMP_IDX[name]:
                ji = JUMP_IDX[name]
                jp[ji] = pos[ps[ji][1] if isinstance(ps[ji], tuple) else ps[ji]]
            ops.append({"opcode": name, "params": jp})
        jr = {"type": r["kind"], "ops": ops}
        if r["kind"] == "COROUTINE":
            jr["name"] = r["name"]
        elif r["kind"] != "GENERIC":
            jr["target_id"] = r["target"]
        routines.append(jr)
    return dict(SETTINGS, routines=routines)


def run_shard(shard, acc):
    monitors.install()
    rnd = random.Random(shard["seed"] ^ 15)
    base = tempfile.mkdtemp(prefix="verif_c15_")
    try:
        if shard["kind"] == "compile":
            cfgs = [{"labels": False, "no_terminator_p": 0.0}, {}]
            i = 0
            # one fixed program with the constructs whose printing depends on the settings of the document
            fixed = ("def 0 for actor 0 {\n    dungeon_mode(3) = 0;\n    dungeon_mode(4) = 1;\n    dungeon_mode(5) = 2;\n    dungeon_mode(6) = 3;\n"
                     "    switch (dungeon_mode(7)) {\n        case 0:\n            a();\n            break;\n        case 1:\n            b();\n            break;\n"
                     "        case 2:\n            c();\n            break;\n        case 3:\n            d();\n            break;\n    }\n"
                     "    if ($PERFORMANCE_PROGRESS_LIST[3]) {\n        e();\n    }\n    $PERFORMANCE_PROGRESS_LIST[4] = 1;\n    end;\n}\n"
                     "def 1 for object 0 {\n    f();\n    hold;\n}\ndef 2 for performer 0 {\n    g();\n    hold;\n}\n")
            root = os.path.join(base, "fixed")
            os.makedirs(root)
            with open(os.path.join(root, "main.exps"), "w", encoding="utf-8") as f:
                f.write(fixed)
            compile_case(acc, root, "main.exps", [], t2a.parse_program(fixed), None, {"name": "fixed", "text": fixed, "structured": True}, structured=True, rnd=rnd)
            settings_cases(acc, os.path.join(base, "settings"), fixed)
            for cfg in cfgs:
                for name, prog in exps_workload({"kind": "random", "seed": shard["seed"] + len(cfg), "n": shard["n"], "depth": 2, "cfg": cfg}):
                    root = os.path.join(base, f"c{i}")
                    os.makedirs(root)
                    i += 1
                    with open(os.path.join(root, "main.exps"), "w", encoding="utf-8") as f:
                        f.write(print_program(prog).text)
                    inp = {"name": name, "text": print_program(prog).text, "structured": not cfg == {}}
                    compile_case(acc, root, "main.exps", [], prog, None, inp, structured=bool(cfg), rnd=rnd)
                    if i == 1:
                        acc.sample({"source": inp["text"][:400], "class": "structured" if cfg else "any"})
                    # the SsbScript spelling of the same routines (what the decompiler's fallback tells users to compile again)
                    if i % 3 == 0:
                        try:
                            c0 = norm.compile_exps(inp["text"])
                            st, _ = norm.decompile_ssbs(c0.routine_infos, c0.routine_ops, c0.named_coroutines)
                        except Exception:
                            st = None
                        if st is not None:
                            root = os.path.join(base, f"c{i}s")
                            os.makedirs(root)
                            t3 = "//?: is-ssb-script: true\n" + st
                            with open(os.path.join(root, "main.exps"), "w", encoding="utf-8") as f:
                                f.write(t3)
                            acc.count("ssbscript_sources")
                            compile_case(acc, root, "main.exps", [], prog, None, {"name": name + ":ssbscript", "text": t3, "structured": bool(cfg)}, structured=bool(cfg), rnd=rnd)
                    # hostile coincidence: the same program with one integer argument of a test made equal to the compiler's
                    # internal offset of that test's jump target (a printer that confuses argument and target shows here)
                    p2 = coincidence_variant(prog)
                    if p2 is not None:
                        root = os.path.join(base, f"c{i}")
                        os.makedirs(root)
                        i += 1
                        t2 = print_program(p2).text
                        with open(os.path.join(root, "main.exps"), "w", encoding="utf-8") as f:
                            f.write(t2)
                        acc.count("programs_with_argument_equal_to_target_offset")
                        compile_case(acc, root, "main.exps", [], p2, None, {"name": name + ":coincidence", "text": t2, "structured": bool(cfg)}, structured=bool(cfg), rnd=rnd)
        elif shard["kind"] == "compile_macro":
            for name, lay in macro_workload({"seed": shard["seed"], "n": shard["n"]}):
                with lay:
                    macros, _ = lay.visible_macros(lay.main_key)
                    inp = {"name": name, "layout": lay.describe(), "texts": lay.texts()}
                    # cwd = scratch root; lookup paths relative to cwd, as a user would pass them
                    compile_case(acc, lay.root, lay.main_key, list(lay.lookup_keys), lay.files[lay.main_key], macros, inp, structured=False, rnd=rnd)
        elif shard["kind"] == "documents":
            for i in range(shard["n"]):
                for _ in range(30):
                    spec = random_ssb(rnd, hostile=0.0, well_formed=True, typed=True, keyword_names=False, special_p=0.2)
                    infos, ops, named = norm.make_ops(spec)
                    if well_formed_problem(ops) is None:
                        break
                else:
                    continue
                if i % 4 == 0 and not any(r["kind"] == "COROUTINE" for r in spec["routines"]):
                    for k, r in enumerate(spec["routines"]):
                        r["kind"], r["name"], r["target"] = "COROUTINE", f"CORO_{k}", None
                elif i % 4 == 1:
                    # coroutines between routines of the other types (the compiler accepts `def` and `coro` in one file)
                    for k, r in enumerate(spec["routines"]):
                        if rnd.random() < 0.5:
                            r["kind"], r["name"], r["target"] = "COROUTINE", f"CORO_{k}", None
                        elif r["kind"] == "COROUTINE":
                            r["kind"], r["name"], r["target"] = "GENERIC", None, None
                    if len({r["kind"] == "COROUTINE" for r in spec["routines"]}) == 2:
                        acc.count("documents_mixing_coroutines_and_routines")
                elif i % 4 == 3:
                    # routines for actors / objects / performers given by name and by number in one document (the docs' example
                    # has ACTOR "TEST" in front of ACTOR 2)
                    kinds = ["ACTOR", "OBJECT", "PERFORMER"]
                    for k, r in enumerate(spec["routines"]):
                        r["kind"], r["name"] = (kinds[(k // 2 + i) % 3] if rnd.random() < 0.8 else rnd.choice(kinds)), None
                        r["target"] = rnd.choice(["ACTOR_NPC", "OBJ_X", "TEST"]) if k % 2 == 0 else rnd.randint(0, 400)
                    if len(spec["routines"]) > 1:
                        acc.count("documents_with_named_and_numbered_targets")
                doc = doc_from_spec(spec, rnd)
                root = os.path.join(base, f"d{i}")
                os.makedirs(root)
                with open(os.path.join(root, "ssb.json"), "w") as f:
                    json.dump(doc, f)
                inp = {"name": f"doc{i}", "document": doc}
                acc.announce("decompile-cli", inp)
                args = ["ssb.json"] + (["--source-map", "d.sm"] if rnd.random() < 0.5 else [])
                d = run_cli("explorerscript.cli.decompile", args, root)
                acc.count("decompile_cli_runs")
                acc.count("documents")
                for r in doc["routines"]:
                    acc.count("routine_type:" + r["type"])
                acc.case(json.dumps(doc, sort_keys=True), True)
                if d.returncode != 0:
                    acc.violation(gsig("decompile-cli-rejects-documented-input", d.stderr.strip().split("\n")[-1][:70]), {"stderr": d.stderr[-400:]}, inp)
                    continue
                # the command is a thin layer: on my own reading of the document (docs/cli_api_usage.rst) the decompiler API must
                # give a text with the same ops (values included)
                try:
                    infos2, ops2, named2 = norm.make_ops(spec_from_doc(doc))
                    api_text, _ = norm.decompile_exps(infos2, ops2, named2)
                except Exception:
                    api_text = None
                if api_text is not None and api_text.strip() != d.stdout.strip():
                    try:
                        ca, cb = norm.compile_exps(api_text), norm.compile_exps(d.stdout)
                        a, b = norm.positional(ca.routine_ops), norm.positional(cb.routine_ops)
                        ia, ib = norm.infos(ca.routine_infos, ca.named_coroutines), norm.infos(cb.routine_infos, cb.named_coroutines)
                    except Exception:
                        a = b = ia = ib = None
                        acc.count("document_output_does_not_compile(C02)")
                    if ia != ib:
                        acc.violation(gsig("decompile-cli-reads-the-document-differently", "routine-headers"),
                                      {"api_reading": repr(ia)[:300], "cli_output": repr(ib)[:300]}, inp)
                        continue
                    if a != b:
                        diff = next(((x, y) for ra, rb in zip(a, b) for x, y in zip(ra, rb) if x != y), None)
                        acc.violation(gsig("decompile-cli-reads-the-document-differently", diff[0][0] if diff else "shape"),
                                      {"api_reading": repr(diff[0])[:200] if diff else None, "cli_output": repr(diff[1])[:200] if diff else None}, inp)
                        continue
                acc.count("document_outputs_compared_with_api")
                if i == 0:
                    acc.sample({"document": doc["routines"][:1], "stdout": d.stdout[:400]})
        else:
            from vf import invalid
            for i in range(shard["n"]):
                root = os.path.join(base, f"i{i}")
                os.makedirs(root)
                t = rnd.choice(invalid.DEGENERATE + [invalid.soup_text(rnd) for _ in range(3)])
                with open(os.path.join(root, "main.exps"), "w", encoding="utf-8") as f:
                    f.write(t)
                compile_case(acc, root, "main.exps", [], None, None, {"name": "invalid", "text": t}, structured=False, rnd=rnd)
                # malformed documents
                bad = rnd.choice([{"routines": []}, dict(SETTINGS), dict(SETTINGS, routines=[{"type": "NOPE", "ops": []}]),
                                  dict(SETTINGS, routines=[{"type": "GENERIC"}]), dict(SETTINGS, routines=[{"type": "ACTOR", "ops": []}]),
                                  dict(SETTINGS, routines=[{"type": "GENERIC", "ops": [{"opcode": "x"}]}]),
                                  dict(SETTINGS, routines=[{"type": "GENERIC", "ops": [{"opcode": "x", "params": [{"type": "WRONG", "value": 1}]}]}])])
                with open(os.path.join(root, "bad.json"), "w") as f:
                    json.dump(bad, f)
                d = run_cli("explorerscript.cli.decompile", ["bad.json"], root)
                acc.count("malformed_documents")
                acc.case(json.dumps(bad, sort_keys=True), True)
                if d.returncode == 0 or d.stdout.strip():
                    acc.violation(gsig("malformed-document-accepted"), {"status": d.returncode, "stdout": d.stdout[:200], "document": bad}, {"document": bad})
    finally:
        shutil.rmtree(base, ignore_errors=True)


def summarize(agg, tier):
    c = agg["counters"]
    cov = {
        "rule": "programs written to a scratch tree and run through both CLIs as subprocesses; JSON documents written from the docs; "
                "distinct by source text / document; non-trivial (compile side) = the compiler's offsets have gaps",
        "compile_cli_runs": c.get("compile_cli_runs", 0), "decompile_cli_runs": c.get("decompile_cli_runs", 0),
        "jump_params_checked": c.get("jump_params_checked", 0), "chains_compared": c.get("chains_compared", 0),
        "programs_with_offset_gaps": c.get("programs_with_offset_gaps", 0),
        "routine_types_in_documents": {k[13:]: v for k, v in c.items() if k.startswith("routine_type:")},
    }
    floors = []
    if c.get("compile_cli_runs", 0) < 40 or c.get("decompile_cli_runs", 0) < 40:
        floors.append("fewer than 40 runs of one of the CLIs")
    if c.get("programs_with_offset_gaps", 0) < 5:
        floors.append("fewer than 5 programs with offset gaps")
    if c.get("routine_type:COROUTINE", 0) == 0:
        floors.append("no COROUTINE document")
    return cov, not floors, floors


def replay(inp, acc):
    monitors.install()
    base = tempfile.mkdtemp(prefix="verif_c15r_")
    try:
        if "document" in inp:
            with open(os.path.join(base, "ssb.json"), "w") as f:
                json.dump(inp["document"], f)
            d = run_cli("explorerscript.cli.decompile", ["ssb.json"], base)
            acc.case("doc", True)
            if d.returncode != 0:
                acc.violation(gsig("decompile-cli-rejects-documented-input", d.stderr.strip().split("\n")[-1][:70]), {"stderr": d.stderr[-400:]}, inp)
        elif "text" in inp:
            with open(os.path.join(base, "main.exps"), "w", encoding="utf-8") as f:
                f.write(inp["text"])
            prog = None
            try:
                prog = t2a.parse_program(inp["text"])
            except Exception:
                pass
            compile_case(acc, base, "main.exps", [], prog, None, inp, structured=bool(inp.get("structured")) and prog is not None, rnd=random.Random(0))
    finally:
        shutil.rmtree(base, ignore_errors=True)
