"""C06 - the decompiler always answers; its SsbScript fallback is marked and exact.
Workload G-SSB: compiler-shaped, re-laid-out, CFG-shaped (irreducible loops, jumps into blocks, routines that are one
jump into another routine, shared case bodies) and special-opcode routine sets, all well-formed.
Monitor K-DECOMPILE on the real convert(): exceptions, result type, marker, exactness of the fallback by recompiling,
interpreter-step count (sys.monitoring) for the bounded-progress form of "always answers"."""
from __future__ import annotations

import random

from vf import monitors, norm
from vf.common import shard_seeds, gsig
from vf.decomp import ssb_workload, decompile_once, well_formed_problem
from vf.props.c07 import half_tile

LEVEL = "exploration"
ASSUMPTIONS = [
    "well-formed = offsets increase, jumps hit ops of the set, no path runs off the end of a routine, no Jump-only cycle",
    "'always answers' is checked as bounded progress: function entries inside explorerscript/ and igraph/ during convert() must "
    "stay below STEP_BOUND(n) (measured on the unchanged tree, x200); the wall-clock watchdog alone is inconclusive",
    "fallback exactness is compared in positional normal form (opcode, canonical parameters, jump targets as routine/index)",
]
CRASH_IS_VIOLATION = True


def step_bound(nops):
    # measured on the unchanged tree: max ~ 6e3 + 4e3 * n function entries for n <= 60 ops; bound is 200x that
    return 200 * (6000 + 4000 * nops)


def shards(tier, seed):
    q = tier == "quick"
    out = []
    for s in shard_seeds(seed, 5, "C06a"):
        out.append({"kind": "compiled", "seed": s, "n": 90 if q else 900, "depth": 2})
    for s in shard_seeds(seed, 3, "C06b"):
        out.append({"kind": "relaid", "seed": s, "n": 90 if q else 900, "depth": 2})
    for s in shard_seeds(seed, 5, "C06c"):
        out.append({"kind": "cfg", "seed": s, "n": 100 if q else 2500})
    for s in shard_seeds(seed, 3, "C06d"):
        out.append({"kind": "special", "seed": s, "n": 80 if q else 2000, "hostile": 0.2})
    for s in shard_seeds(seed, 2, "C06e"):
        out.append({"kind": "forced_fallback", "seed": s, "n": 60 if q else 1500})
    return out


def check(acc, name, infos, ops, named, meta, sample=False):
    nops = sum(len(r) for r in ops)
    # (all classes of this workload carry user labels / random flow: residual mis-structuring there is K05, as in C02)
    inp = {"name": name, "spec": norm.spec_of(infos, ops, named), "kind": meta.get("kind"),
           "unstructured": meta.get("kind") not in ("catalogue", "flat", "handbuilt")}
    wf = well_formed_problem(ops)
    if wf is not None:
        acc.count("skipped_not_well_formed")
        return
    acc.announce(name, inp)
    d = decompile_once(acc, infos, ops, named, "exps", seconds=30, count_steps=True)
    acc.count("convert_calls")
    acc.count("kind:" + str(meta.get("kind")))
    acc.maxc("max:steps", d.steps or 0)
    acc.maxc("max:steps_per_op_x1000", int(1000 * (d.steps or 0) / max(1, nops)))
    acc.case(repr(inp["spec"]), nops >= 3)
    if d.steps is not None and d.steps > step_bound(nops):
        acc.violation(gsig("runaway"), {"steps": d.steps, "bound": step_bound(nops), "ops": nops, "timeout": d.timeout}, inp)
        return
    if d.timeout:
        acc.inconc("watchdog", {"steps": d.steps})
        return
    if d.exc is not None:
        acc.violation(gsig("convert-raised", d.exc[0], d.exc[2]), {"type": d.exc[0], "message": d.exc[1], "frame": d.exc[2]}, inp)
        return
    for m in d.monitor_log:
        if m["prop"] == "C06":
            acc.violation(gsig(m["sig"]), m["witness"], inp)
    if not d.fallback:
        acc.count("structured_answers")
        # an unmarked answer claims to be ExplorerScript: the compiler has to take it (what it means is C02's business)
        try:
            norm.compile_exps(d.text)
            acc.count("structured_answers_accepted_by_the_compiler")
        except Exception as e:
            acc.violation(gsig("unmarked-text-rejected", type(e).__name__, str(e)[:45]), {"error": str(e)[:300]}, dict(inp, text=d.text))
            return
        if "is-ssb-script" in d.text.split("\n", 3)[0] or d.text.lstrip().startswith("//?:"):
            acc.violation("marker-malformed", {"head": d.text[:80]}, inp)
        if sample:
            acc.sample({"kind": meta.get("kind"), "ops": inp["spec"]["routines"][0]["ops"][:12], "answer": "structured", "text": d.text[:500]})
        return
    acc.count("fallback_answers")
    inp["text"] = d.text
    # an object whose convert() fell back answers the same when it is asked again (the fallback works on the ops it was given,
    # not on what the structuring passes left of them)
    try:
        obj = norm.decompiler_exps(infos, ops, named)
        first = obj.convert()[0]
        second = obj.convert()[0]
        acc.count("second_convert_on_the_same_object")
        if norm.is_fallback(first) and second != first:
            acc.violation(gsig("second-convert-differs-after-fallback"), {"first": first[-300:], "second": second[-300:]}, inp)
            return
    except Exception as e:
        acc.violation(gsig("second-convert-raised-after-fallback", type(e).__name__), {"error": str(e)[:200]}, inp)
        return
    from explorerscript.error import ParseError, SsbCompilerError
    try:
        c = norm.compile_exps(d.text)
    except (ParseError, SsbCompilerError, ValueError) as e:
        acc.violation(gsig("fallback-rejected", type(e).__name__), {"error": str(e)[:200]}, inp)
        return
    except Exception as e:
        acc.violation(gsig("fallback-crashed-compiler", type(e).__name__), {"error": str(e)[:200]}, inp)
        return
    before, after = half_tile(norm.positional(ops)), half_tile(norm.positional(c.routine_ops))
    if norm.infos(infos, named) != norm.infos(c.routine_infos, c.named_coroutines):
        acc.violation("fallback-routine-table-differs", {"before": norm.infos(infos, named), "after": norm.infos(c.routine_infos, c.named_coroutines)}, inp)
    elif before != after:
        diff = None
        for ri, (ra, rb) in enumerate(zip(before, after)):
            if len(ra) != len(rb):
                diff = (ri, "length", len(ra), len(rb))
                break
            for oi, (a, b) in enumerate(zip(ra, rb)):
                if a != b:
                    if a[0] == b[0] and len(a[1]) == len(b[1]):
                        pi = next(i for i, (x, y) in enumerate(zip(a[1], b[1])) if x != y)
                        diff = (ri, oi, a[0], pi, a[1][pi], b[1][pi])
                    else:
                        diff = (ri, oi, a, b)
                    break
            if diff:
                break
        acc.violation(gsig("fallback-inexact", diff[2] if diff and len(diff) > 4 else "shape"), {"first_difference": diff}, inp)
    else:
        acc.count("fallback_exact")
    if sample:
        acc.sample({"kind": meta.get("kind"), "answer": "fallback", "text": d.text[-500:]})


def run_shard(shard, acc):
    monitors.install()
    nf = ns = 0
    for name, infos, ops, named, meta in ssb_workload(shard):
        check(acc, name, infos, ops, named, meta, sample=(nf + ns < 2))
        ns += 1


def summarize(agg, tier):
    c = agg["counters"]
    cov = {
        "rule": "well-formed SSB routine sets (compiler-shaped / re-laid-out / random CFG / special opcodes); distinct by description; "
                "non-trivial = at least 3 ops; each is converted once by the real ExplorerScript decompiler under K-DECOMPILE",
        "convert_calls": c.get("convert_calls", 0), "structured_answers": c.get("structured_answers", 0),
        "fallback_answers": c.get("fallback_answers", 0), "fallback_exact": c.get("fallback_exact", 0),
        "max_steps_observed": c.get("max:steps", 0), "max_steps_per_op": c.get("max:steps_per_op_x1000", 0) / 1000.0,
        "by_kind": {k[5:]: v for k, v in c.items() if k.startswith("kind:")},
    }
    floors = []
    if c.get("convert_calls", 0) < 300:
        floors.append("fewer than 300 convert() calls")
    if c.get("fallback_answers", 0) < 20 or c.get("structured_answers", 0) < 20:
        floors.append("both answer kinds must be observed at least 20 times")
    return cov, not floors, floors


def replay(inp, acc):
    monitors.install()
    spec = norm.spec_from_json(inp["spec"])
    infos, ops, named = norm.make_ops(spec)
    check(acc, inp.get("name"), infos, ops, named, {"kind": inp.get("kind")})
