"""C14 - source maps survive storage and offset rewriting.
Workload: source maps produced by the real compilers / decompilers on G-EXPS programs plus arbitrary well-typed
maps, x injective offset mappings (identity, shifts, random drops incl. return-address ops, non-monotone
permutations, empty). Monitor K-SOURCEMAP: icontract.snapshot + ensure on SourceMap.rewrite_offsets (against a
15-line reference), wrapper on serialize (round trip, field-by-field, re-serialisation)."""
from __future__ import annotations

import copy
import random

from vf import monitors, norm
from vf.common import exps_workload, shard_seeds, gsig, try_compile, safe_decompile
from vf.esast import print_program

LEVEL = "exploration"
ASSUMPTIONS = ["reference of rewrite_offsets: vf/monitors.py expected_rewrite (from the property statement)",
               "equality of tables is field by field; sequence values compared as sequences except called_in, whose type "
               "(tuple) is also required after reloading, as the class annotates it"]


def shards(tier, seed):
    out = []
    for s in shard_seeds(seed, 8, "C14r"):
        out.append({"kind": "random_maps", "seed": s, "n": 150 if tier == "quick" else 5000})
    for s in shard_seeds(seed, 8, "C14p"):
        out.append({"kind": "produced", "seed": s, "n": 40 if tier == "quick" else 1200})
    return out


def random_map(r: random.Random):
    from explorerscript.source_map import SourceMap, SourceMapping, MacroSourceMapping, SourceMapPositionMark

    n = r.choice([0, 1, 3, 8, 20])
    keys = r.sample(range(0, 60), min(60, n + r.randint(0, 10)))
    r.shuffle(keys)
    direct = keys[:n]
    mac = keys[n:]
    files = [None, "lib/a.exps", "../x/ü.exps", "b.exps", "..\\macros\\dir\\m.exps", "C:\\proj\\a b.exps", "/abs/x.exps"]

    def pm():
        return SourceMapPositionMark(r.randint(0, 50), r.randint(0, 80), r.randint(0, 50), r.randint(0, 80),
                                     r.choice(["m", "", "it's", 'q"', "ü\n"]), r.choice([0, 2, 4]), r.choice([0, 2, 4]),
                                     r.randint(-5, 300), r.randint(-5, 300))

    mappings = {k: SourceMapping(r.randint(0, 99), r.randint(0, 120)) for k in direct}
    macros = {}
    for k in mac:
        ci = None
        if r.random() < 0.4:
            ci = (r.choice(files), r.randint(0, 99), r.randint(0, 80))
        ra = r.choice([None, r.randint(0, 70), r.choice(keys) if keys else 1, 0, 1, 65])
        pmap = {}
        for i in range(r.randint(0, 3)):
            pmap[r.choice(["$a", "$b", "$c", "$ü"])] = r.choice([1, -3, "7", "str('x')", "Position<'m', 1, 2.5>", "$outer"])
        macros[k] = MacroSourceMapping(r.choice(files), r.choice(["m1", "m2", "macro_ü"]), r.randint(0, 99), r.randint(0, 80),
                                       ci, ra, pmap)
    pms = [pm() for _ in range(r.randint(0, 3))]
    pmm = [(r.choice(files), r.choice(["m1", "m2"]), pm()) for _ in range(r.randint(0, 3))]
    return SourceMap(mappings, pms, macros, pmm)


def random_mapping(r: random.Random, sm):
    """injective old -> new mapping over the offsets of sm (plus a few extra ones)"""
    offs = sorted(set(sm._mappings) | set(sm._mappings_macros) | {r.randint(0, 70) for _ in range(r.randint(0, 6))})
    ras = [v.return_addr for v in sm._mappings_macros.values() if v.return_addr is not None]
    c = r.randint(0, 6)
    if c == 0:
        return {o: o for o in offs}, "identity"
    if c == 1:
        d = r.randint(1, 500)
        return {o: o + d for o in offs}, "shift"
    if c == 2:
        return {}, "empty"
    keep = [o for o in offs if r.random() < 0.7]
    if c == 3:
        keep = [o for o in keep if o not in ras]  # drop the return address ops
        kind = "drop-return-address-ops"
    elif c == 4:
        kind = "drop-random"
    else:
        keep = offs if c == 5 else keep
        kind = "non-monotone" + ("" if c == 5 else "+drop")
    if kind.startswith("non-monotone"):
        new = r.sample(range(0, 100000), len(keep))
    else:
        new = sorted(r.sample(range(0, 100000), len(keep)))
    pairs = list(zip(keep, new))
    if r.random() < 0.5:
        r.shuffle(pairs)  # (a mapping is a mapping: the order in which the caller filled it in does not matter)
        kind += "+unordered"
    return dict(pairs), kind


def exercise(acc, sm, rnd, inp, origin):
    """serialize (monitored) and rewrite (monitored) the real object."""
    monitors.drain()
    e0 = monitors.COUNTS.get("K-SOURCEMAP:serialize:evaluations", 0)
    acc.announce(origin, inp)
    text = sm.serialize()
    if rnd.random() < 0.3:
        sm.serialize(pretty=True)
    if monitors.COUNTS.get("K-SOURCEMAP:serialize:evaluations", 0) == e0:
        acc.inconc("serialize-monitor-not-evaluated")
    acc.count("serialize_checked")
    n_entries = len(sm._mappings) + len(sm._mappings_macros)
    for m in monitors.drain("C14"):
        acc.violation(gsig(m["sig"]), m["witness"], dict(inp, map=text))
    for _ in range(3):
        sm2 = copy.deepcopy(sm)
        mapping, kind = random_mapping(rnd, sm2)
        e1 = monitors.COUNTS.get("K-SOURCEMAP:rewrite:evaluations", 0)
        try:
            sm2.rewrite_offsets(dict(mapping))
        except Exception as e:
            acc.violation(gsig("rewrite-raised", type(e).__name__), {"type": type(e).__name__, "message": str(e)[:100], "kind": kind},
                          dict(inp, map=text, mapping=sorted(mapping.items())))
            continue
        if monitors.COUNTS.get("K-SOURCEMAP:rewrite:evaluations", 0) == e1:
            acc.inconc("rewrite-monitor-not-evaluated")
        acc.count("rewrite_checked")
        acc.count("mapping_kind:" + kind.replace("+unordered", ""))
        if kind.endswith("+unordered"):
            acc.count("mappings_filled_in_random_order")
        # the rewritten map is stored again (a map that was serialised before being rewritten must not hand out the old text)
        try:
            sm2.serialize()
            acc.count("serialize_after_rewrite_checked")
        except Exception as e:
            acc.violation(gsig("serialize-after-rewrite-raised", type(e).__name__), {"message": str(e)[:100]}, dict(inp, map=text, mapping=sorted(mapping.items())))
        for m in monitors.drain("C14"):
            acc.violation(gsig(m["sig"], kind), m["witness"], dict(inp, map=text, mapping=sorted(mapping.items())))
    acc.case(text, n_entries >= 2)
    return text


def run_shard(shard, acc):
    monitors.install()
    rnd = random.Random(shard["seed"])
    if shard["kind"] == "random_maps":
        for i in range(shard["n"]):
            sm = random_map(rnd)
            t = exercise(acc, sm, rnd, {"origin": "random"}, "random")
            acc.count("random_maps")
            if i < 1:
                acc.sample({"origin": "random well-typed map", "serialized": t[:600]})
        return
    for i, (name, prog) in enumerate(exps_workload({"kind": "random", "seed": shard["seed"], "n": shard["n"], "depth": 2})):
        r = print_program(prog)
        c = try_compile(r.text, acc)
        if c is None:
            continue
        t = exercise(acc, c.source_map, rnd, {"origin": "compile", "text": r.text}, "compile")
        acc.count("compiler_maps")
        if i < 1:
            acc.sample({"origin": "compiler", "source": r.text[:300], "serialized": t[:400]})
        for which, fn in (("ssbs", norm.decompile_ssbs), ("exps", norm.decompile_exps)):
            ops, _ = norm.renumber(c.routine_ops)
            res = safe_decompile(acc, fn, c.routine_infos, ops, c.named_coroutines, 10)
            monitors.drain()
            if res is None:
                continue
            text, sm = res
            exercise(acc, sm, rnd, {"origin": "decompile-" + which, "text": r.text}, "decompile")
            acc.count("decompiler_maps")


def summarize(agg, tier):
    c = agg["counters"]
    cov = {
        "rule": "source maps (random well-typed, compiler-made, decompiler-made) x 3 injective mappings each; distinct by "
                "serialised text; non-trivial = at least 2 entries",
        "serialize_monitor_evaluations": c.get("serialize_checked", 0),
        "rewrite_monitor_evaluations": c.get("rewrite_checked", 0),
        "mapping_kinds": {k[13:]: v for k, v in c.items() if k.startswith("mapping_kind:")},
        "maps_by_origin": {k: c.get(k, 0) for k in ("random_maps", "compiler_maps", "decompiler_maps")},
    }
    floors = []
    if c.get("rewrite_checked", 0) < 500 or c.get("serialize_checked", 0) < 200:
        floors.append("monitors evaluated too rarely")
    for k in ("identity", "shift", "empty", "drop-return-address-ops", "drop-random", "non-monotone"):
        if c.get("mapping_kind:" + k, 0) == 0:
            floors.append("mapping kind never used: " + k)
    return cov, not floors, floors


def replay(inp, acc):
    monitors.install()
    from explorerscript.source_map import SourceMap

    sm = SourceMap.deserialize(inp["map"])
    monitors.drain()
    sm.serialize()
    for m in monitors.drain("C14"):
        acc.violation(gsig(m["sig"]), m["witness"], inp)
    if "mapping" in inp:
        sm.rewrite_offsets({int(a): int(b) for a, b in inp["mapping"]})
        for m in monitors.drain("C14"):
            acc.violation(gsig(m["sig"]), m["witness"], inp)
    acc.case(inp["map"], True)
