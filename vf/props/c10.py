"""C10 - compilation fails only in documented ways and rejects meaningless programs.
Workload: G-INVALID (one injected static violation), degenerate routines, token-level corruptions of valid
programs, token soup, import graphs with cycles / missing files / routines in imported files on a scratch tree.
Monitor: K-COMPILE exception classifier (wrapper on the real compile methods) + acceptance check."""
from __future__ import annotations

import os
import random
import shutil
import tempfile

from vf import monitors, norm, invalid
from vf.common import exps_workload, std_shards, gsig, shard_seeds
from vf.esast import print_program, ref_lts, RefError

LEVEL = "exploration"
ASSUMPTIONS = ["documented exception types: ParseError, SsbCompilerError, ValueError (docstring of compile())",
               "an injected program counts as statically meaningless only if my reference semantics rejects it too "
               "(or the injection is one of the textual ones listed in vf/invalid.py)",
               "routine ids above 5000 are not generated (resource exhaustion is not an exception-type question)"]


def shards(tier, seed):
    n = 25 if tier == "quick" else 500
    out = [{"kind": "degenerate", "seed": seed}, {"kind": "imports", "seed": seed, "n": 72 if tier == "quick" else 144}]
    for s in shard_seeds(seed, 14, "C10"):
        out.append({"kind": "mutate", "seed": s, "n": n, "depth": 2})
    return out


def _nesting(text):
    d = m = 0
    for ch in text:
        if ch in "({[<":
            d += 1
            m = max(m, d)
        elif ch in ")}]>" and d > 0:
            d -= 1
    return m


def attempt(acc, text, inp, must_reject=None, path=None, lookup=None, compiler=None):
    """Compile once under the classifier. Returns 'ok' / 'rejected' / 'crash'."""
    from explorerscript.error import ParseError, SsbCompilerError
    from explorerscript.ssb_converting.ssb_compiler import ExplorerScriptSsbCompiler
    from vf.env import PPL

    monitors.drain()
    acc.announce(inp.get("name"), {"text": text})
    c = compiler or ExplorerScriptSsbCompiler(PPL, list(lookup or []))
    calls = monitors.COUNTS.get("K-COMPILE:exps:calls", 0)
    outcome = "ok"
    try:
        c.compile(text, path or "/nonexistent/verif/main.exps")
    except (ParseError, SsbCompilerError, ValueError) as e:
        outcome = "rejected"
        acc.count("documented:" + type(e).__name__)
    except RecursionError:
        # the interpreter's recursion limit is a resource limit for deeply nested inputs; for anything else (e.g. an import
        # cycle that is not noticed) it is an undocumented exception type like any other
        outcome = "rejected"
        acc.count("recursion_error")
        if _nesting(text) <= 40:
            outcome = "crash"
            acc.violation(gsig("undocumented-exception:RecursionError"), {"type": "RecursionError", "nesting_depth_of_input": _nesting(text)}, inp)
    except Exception as e:
        outcome = "crash"
    if monitors.COUNTS.get("K-COMPILE:exps:calls", 0) == calls:
        acc.inconc("classifier-not-evaluated")
    acc.count("classifier_evaluations")
    for m in monitors.drain():
        if m["prop"] == "C10":
            acc.violation(gsig(m["sig"]), m["witness"], inp)
        elif m["prop"] == "C03" and outcome == "ok":
            acc.count("c03_monitor_fired_on_accepted_input")
    if outcome != "ok" and (c.routine_ops is not None or c.routine_infos is not None or c.source_map is not None):
        acc.violation("output-after-raise", {"note": "result attributes set although compile raised"}, inp)
    if must_reject and outcome == "ok":
        acc.violation(gsig("accepted-invalid", must_reject), {"kind": must_reject, "ops": norm.raw(c.routine_ops)[:2]}, inp)
    acc.count("outcome:" + outcome)
    return outcome


def run_shard(shard, acc):
    monitors.install()
    rnd = random.Random(shard["seed"])
    if shard["kind"] == "degenerate":
        for i, t in enumerate(invalid.DEGENERATE):
            o = attempt(acc, t, {"name": f"degenerate{i}", "text": t})
            acc.case(t, True)
            if i in (13, 17, 19):
                acc.sample({"class": "degenerate", "text": t, "outcome": o})
        for i in range(300):
            t = invalid.soup_text(rnd)
            attempt(acc, t, {"name": "soup", "text": t})
            acc.case(t, True)
            acc.count("soup_texts")
        return
    if shard["kind"] == "imports":
        run_imports(shard, acc, rnd)
        return
    for i, (name, prog) in enumerate(exps_workload({"kind": "random", "seed": shard["seed"], "n": shard["n"], "depth": shard["depth"]})):
        r = print_program(prog)
        o = attempt(acc, r.text, {"name": name, "text": r.text})
        acc.count("valid_programs")
        if o != "ok":
            acc.count("valid_program_rejected")
            continue
        # the same compiler object used again: a program that only *calls* the macros of the program compiled before must
        # still be rejected (unknown macro), so must a jump to a label only the earlier program defines
        if prog.get("macros") and any(invalid.has_macro_call(b) for _, b in prog["routines"] if b):
            from explorerscript.ssb_converting.ssb_compiler import ExplorerScriptSsbCompiler
            from vf.env import PPL
            shared = ExplorerScriptSsbCompiler(PPL, [])
            if attempt(acc, r.text, {"name": name + ":first-use", "text": r.text}, compiler=shared) == "ok":
                t4 = print_program(dict(prog, macros=[], order=None)).text
                attempt(acc, t4, {"name": name + ":second-use-without-the-macros", "text": t4, "before": r.text, "kind": "unknown_macro_on_reused_compiler"},
                        must_reject="unknown_macro_on_reused_compiler", compiler=shared)
                acc.count("injected:unknown_macro_on_reused_compiler")
        # one injection of every kind
        for kind in invalid.KINDS:
            p2 = invalid.inject(prog, kind, rnd)
            if p2 is None:
                acc.count("inject_na:" + kind)
                continue
            try:
                ref_lts(p2)
                # (the reference only looks at a macro body when it expands a call: a violation inside a macro that is never
                # called is judged by the kind, which is context free)
                textual = kind.endswith("@macro") or kind in ("stmt_in_message_switch", "label_in_with", "not_on_plain_bit", "not_on_plain_bit_while",
                                                             "missing_import", "recursive_macro_direct", "recursive_macro_indirect")
                if not textual:
                    acc.count("inject_not_invalid_by_reference:" + kind)
                    continue
            except RefError:
                pass
            except Exception:
                pass
            t2 = print_program(p2).text
            o2 = attempt(acc, t2, {"name": name + ":" + kind, "text": t2, "kind": kind}, must_reject=kind)
            acc.count("injected:" + kind)
            acc.case(t2, True)
            if i == 0 and kind in ("break_outside_case", "two_defaults", "recursive_macro_indirect"):
                acc.sample({"class": "injected:" + kind, "text": t2[-700:], "outcome": o2})
        # corruptions
        for _ in range(4):
            t3 = invalid.corrupt(r.text, rnd)
            attempt(acc, t3, {"name": name + ":corrupt", "text": t3})
            acc.count("corruptions")
            acc.case(t3, True)
        # the same through the SsbScript door of compile(): marker line + (corrupted) SsbScript spelling
        try:
            c = norm.compile_exps(r.text)
            st, _ = norm.decompile_ssbs(c.routine_infos, c.routine_ops, c.named_coroutines)
        except Exception:
            continue
        finally:
            monitors.drain()
        st = "//?: is-ssb-script: true\n" + st
        o = attempt(acc, st, {"name": name + ":ssbs", "text": st})
        acc.count("ssbs_texts")
        if o != "ok":
            acc.count("valid_ssbs_rejected")
        for _ in range(4):
            t4 = "//?: is-ssb-script: true\n" + invalid.corrupt(st[25:], rnd)
            attempt(acc, t4, {"name": name + ":ssbs-corrupt", "text": t4})
            acc.count("ssbs_corruptions")
            acc.case(t4, True)


def run_imports(shard, acc, rnd):
    """missing / cyclic imports and routines in imported files, on a real scratch directory tree."""
    base = tempfile.mkdtemp(prefix="verif_c10_")
    try:
        for i in range(shard["n"]):
            d = os.path.join(base, f"t{i}")
            os.makedirs(os.path.join(d, "lib"))
            os.makedirs(os.path.join(d, "look"))
            kinds = ["cycle2", "cycle3", "self", "routine_in_import", "routine_in_nested_import", "missing_nested", "ok_diamond",
                     "routine_in_lookup_import", "missing_lookup_after_ok", "missing_lookup_after_ok_nested", "missing_rel_after_ok", "cycle4_through_lookup"]
            kind = kinds[i % len(kinds)]
            files = {}
            main = "def 0 { op_1(); }\n"
            must = kind
            lookup = [os.path.join(d, "look")]
            if kind == "cycle2":
                main = 'import "./lib/a.exps";\n' + main
                files["lib/a.exps"] = 'import "./b.exps";\nmacro ma() { x(); }\n'
                files["lib/b.exps"] = 'import "./a.exps";\nmacro mb() { y(); }\n'
            elif kind == "cycle3":
                main = 'import "./lib/a.exps";\n' + main
                files["lib/a.exps"] = 'import "../lib/b.exps";\nmacro ma() { x(); }\n'
                files["lib/b.exps"] = 'import "c.exps";\nmacro mb() { y(); }\n'
                files["look/c.exps"] = 'import "../lib/a.exps";\nmacro mc() { z(); }\n'
            elif kind == "self":
                main = 'import "./main.exps";\n' + main
            elif kind == "routine_in_import":
                main = 'import "./lib/a.exps";\n' + main
                variants = ['macro ma() { x(); }\ndef 1 { y(); }\n', 'def 0 { y(); }\n', 'coro C { y(); }\nmacro ma() { x(); }\n',
                            'macro ma() { x(); }\ndef 0 for actor 3 { alias previous; }\n', 'macro ma() { x(); }\ncoro EVENT_X { Lock(1); hold; }\n',
                            'def 2 for object 5 { y(); }\nmacro ma() { x(); }\n']
                files["lib/a.exps"] = variants[(i // len(kinds)) % len(variants)]
            elif kind == "routine_in_nested_import":
                main = 'import "./lib/a.exps";\n' + main
                files["lib/a.exps"] = 'import "./b.exps";\nmacro ma() { x(); }\n'
                files["lib/b.exps"] = ['macro mb() { y(); }\ndef 0 { y(); }\n', 'macro mb() { y(); }\ncoro C2 { y(); }\n'][(i // len(kinds)) % 2]
            elif kind == "routine_in_lookup_import":
                main = 'import "c.exps";\n' + main
                files["look/c.exps"] = 'macro mc() { z(); }\ndef 3 { y(); }\n'
            elif kind == "missing_nested":
                main = 'import "./lib/a.exps";\n' + main
                files["lib/a.exps"] = 'import "./gone.exps";\nmacro ma() { x(); }\n'
            elif kind == "missing_lookup_after_ok":
                main = 'import "./lib/a.exps";\nimport "not_in_any_lookup_dir.exps";\n' + main
                files["lib/a.exps"] = 'macro ma() { x(); }\n'
            elif kind == "missing_lookup_after_ok_nested":
                main = 'import "./lib/a.exps";\n' + main
                files["lib/a.exps"] = 'import "c.exps";\nimport "not_in_any_lookup_dir.exps";\nmacro ma() { x(); }\n'
                files["look/c.exps"] = 'macro mc() { z(); }\n'
            elif kind == "missing_rel_after_ok":
                main = 'import "c.exps";\nimport "./lib/gone.exps";\n' + main
                files["look/c.exps"] = 'macro mc() { z(); }\n'
            elif kind == "cycle4_through_lookup":
                main = 'import "c.exps";\n' + main
                files["look/c.exps"] = 'import "../lib/a.exps";\nmacro mc() { z(); }\n'
                files["lib/a.exps"] = 'import "./b.exps";\nmacro ma() { x(); }\n'
                files["lib/b.exps"] = 'import "./d.exps";\nmacro mb() { y(); }\n'
                files["lib/d.exps"] = 'import "c.exps";\nmacro md() { y(); }\n'
            elif kind == "ok_diamond":
                must = None
                main = 'import "./lib/a.exps";\nimport "./lib/b.exps";\ndef 0 { ~ma(); ~mb(); }\n'
                files["lib/a.exps"] = 'import "c.exps";\nmacro ma() { ~mc(); }\n'
                files["lib/b.exps"] = 'import "c.exps";\nmacro mb() { ~mc(); }\n'
                files["look/c.exps"] = 'macro mc() { z(); }\n'
            files["main.exps"] = main
            for fn, content in files.items():
                with open(os.path.join(d, fn), "w", encoding="utf-8") as f:
                    f.write(content)
            o = attempt(acc, main, {"name": "imports:" + kind, "text": main, "files": files, "kind": kind}, must_reject=must,
                        path=os.path.join(d, "main.exps"), lookup=lookup)
            if must is None and o != "ok":
                acc.violation("valid-import-layout-rejected", {"kind": kind, "outcome": o}, {"name": kind, "files": files})
            acc.count("import_layouts:" + kind)
            acc.case(repr(sorted(files.items())), True)
            if i < 2:
                acc.sample({"class": "imports:" + kind, "files": files, "outcome": o})
    finally:
        shutil.rmtree(base, ignore_errors=True)


def summarize(agg, tier):
    c = agg["counters"]
    cov = {
        "rule": "inputs: degenerate catalogue, token soup, valid G-EXPS programs, the same with one injected static "
                "violation of each kind, token-level corruptions, import layouts on disk; distinct by text; every input "
                "is non-trivial for the exception classifier (it is evaluated on each call)",
        "classifier_evaluations": c.get("classifier_evaluations", 0),
        "outcomes": {k[8:]: v for k, v in c.items() if k.startswith("outcome:")},
        "injected_by_kind": {k[9:]: v for k, v in c.items() if k.startswith("injected:")},
        "documented_raises": {k[11:]: v for k, v in c.items() if k.startswith("documented:")},
    }
    floors = []
    if c.get("classifier_evaluations", 0) < 500:
        floors.append("classifier evaluated < 500 times")
    missing = [k for k in invalid.KINDS if k != "alias_in_macro" and c.get("injected:" + k, 0) == 0]
    if missing:
        floors.append("injection kinds never exercised: " + ",".join(missing))
    if c.get("outcome:rejected", 0) == 0 or c.get("outcome:ok", 0) == 0:
        floors.append("both outcomes must be observed")
    return cov, not floors, floors


def replay(inp, acc):
    monitors.install()
    if "files" in inp:
        base = tempfile.mkdtemp(prefix="verif_c10r_")
        try:
            for fn, content in inp["files"].items():
                os.makedirs(os.path.dirname(os.path.join(base, fn)), exist_ok=True)
                with open(os.path.join(base, fn), "w", encoding="utf-8") as f:
                    f.write(content)
            os.makedirs(os.path.join(base, "look"), exist_ok=True)
            attempt(acc, inp["files"]["main.exps"], inp, must_reject=inp.get("kind") if inp.get("kind") != "ok_diamond" else None,
                    path=os.path.join(base, "main.exps"), lookup=[os.path.join(base, "look")])
        finally:
            shutil.rmtree(base, ignore_errors=True)
        return
    attempt(acc, inp["text"], inp, must_reject=inp.get("kind"))
