"""C12 - concurrent compilation and decompilation give the sequential results.
Several threads run compile / decompile jobs at the same time under K-SCHED (switch interval 1 microsecond + yield injection
at sys.monitoring LINE / PY_START events inside the code that touches shared state: the graph_utils memo, the static ANTLR
prediction caches, the decompiler's writer). Every call is recorded at the client boundary (call / return time from one
monotonic clock) and its result compared with the fresh-process golden of its input. The ANTLR caches are reset to their
process-start state before most schedules, since the races of interest are in cache construction."""
from __future__ import annotations

import json
import random
import shutil
import sys
import tempfile
import threading
import time

from vf import hist, monitors, norm
from vf.common import shard_seeds, gsig

LEVEL = "exploration"
ASSUMPTIONS = [
    "only interleavings the GIL allows exist in this interpreter (switches between bytecodes of different threads); free-threaded "
    "builds are out of scope",
    "a call's sequential result is the record a fresh interpreter computes for its input (C11 shows these agree with in-process runs)",
    "exception messages are recorded but not compared (see C11)",
]
TOOL = 3


class KSched:
    def __init__(self):
        self.codes_line = []
        self.codes_start = []
        self.site = {}
        self.events = []
        self.yields = {}
        self.tls = threading.local()
        self.p = 0.0
        self.active = False
        self.shared_state_seen = 0
        self.dec_class = None

    def collect(self):
        if self.codes_line:
            return
        from antlr4.atn.ParserATNSimulator import ParserATNSimulator as P
        from antlr4.atn.LexerATNSimulator import LexerATNSimulator as L
        from antlr4.PredictionContext import PredictionContextCache as C
        from antlr4.dfa.DFA import DFA
        from explorerscript.ssb_converting.decompiler.graph_building import graph_utils as gu, graph_minimizer as gm
        from explorerscript.ssb_converting import ssb_decompiler as sd
        from explorerscript.ssb_converting.compiler import utils as cu
        from explorerscript import source_map as smm, macro

        def code(f):
            f = getattr(f, "__wrapped__", f)
            return getattr(f, "__code__", None)

        line = [P.addDFAState, P.addDFAEdge, P.adaptivePredict, L.addDFAState, L.addDFAEdge, L.computeTargetState, C.add,
                DFA.setPrecedenceStartState, DFA.setPrecedenceDfa,
                hist.KCACHE.orig_find, hist.KCACHE.orig_clear,
                sd.ExplorerScriptSsbDecompiler.write_stmnt, sd.ExplorerScriptSsbDecompiler.convert,
                cu.Counter.__call__, cu.Counter.allocate, smm.SourceMapBuilder.add_opcode]
        # every other function of graph_utils (the module with the process-wide memo): queries the structuring passes ask while
        # another thread may be anywhere
        import types
        known = {code(f) for f in line}
        line += [f for f in vars(gu).values() if isinstance(f, types.FunctionType) and f.__module__ == gu.__name__ and code(f) not in known]
        start = [getattr(gm.SsbGraphMinimizer, n) for n in ("optimize_paths", "build_branches", "invert_branches", "group_branches",
                                                            "build_and_group_switch_cases", "group_switch_cases", "build_switch_fallthroughs",
                                                            "build_loops", "remove_label_markers", "_get_edges")]
        start += [P.execATN, P.closure, L.execATN, macro.ExplorerScriptMacro.build, sd.ExplorerScriptSsbDecompiler.source_map_add_opcode]
        self.dec_class = sd.ExplorerScriptSsbDecompiler
        self.codes_line = [c for c in map(code, line) if c is not None]
        self.codes_start = [c for c in map(code, start) if c is not None]
        for c in self.codes_line + self.codes_start:
            self.site[c] = c.co_qualname

    def _maybe_yield(self, code):
        idx = getattr(self.tls, "idx", None)
        if idx is None:
            return
        if len(self.events) < 20000:
            self.events.append(idx)
        # invariant at the hook: the class-level defaults of the decompiler are never written (they would be shared by the threads)
        d = self.dec_class.__dict__
        if d.get("labels_already_printed") or d.get("forever_start_handler_stack"):
            self.shared_state_seen += 1
        if self.tls.rng.random() < self.p:
            k = self.site.get(code, "?")
            self.yields[k] = self.yields.get(k, 0) + 1
            time.sleep(0)

    def start(self, p):
        self.collect()
        self.p = p
        self.events = []
        m = sys.monitoring
        m.use_tool_id(TOOL, "ksched")
        m.register_callback(TOOL, m.events.LINE, lambda code, line: self._maybe_yield(code))
        m.register_callback(TOOL, m.events.PY_START, lambda code, off: self._maybe_yield(code))
        for c in self.codes_line:
            m.set_local_events(TOOL, c, m.events.LINE)
        for c in self.codes_start:
            m.set_local_events(TOOL, c, m.events.PY_START)
        self.active = True

    def stop(self):
        if not self.active:
            return
        m = sys.monitoring
        for c in self.codes_line + self.codes_start:
            m.set_local_events(TOOL, c, 0)
        m.register_callback(TOOL, m.events.LINE, None)
        m.register_callback(TOOL, m.events.PY_START, None)
        m.free_tool_id(TOOL)
        self.active = False


KS = KSched()


def reset_antlr_caches():
    """puts the static prediction caches of the generated recognisers back into their process-start state"""
    from antlr4.dfa.DFA import DFA
    from antlr4.PredictionContext import PredictionContextCache
    from explorerscript.antlr.ExplorerScriptParser import ExplorerScriptParser
    from explorerscript.antlr.ExplorerScriptLexer import ExplorerScriptLexer
    from explorerscript.antlr.SsbScriptParser import SsbScriptParser
    from explorerscript.antlr.SsbScriptLexer import SsbScriptLexer

    for cls in (ExplorerScriptParser, ExplorerScriptLexer, SsbScriptParser, SsbScriptLexer):
        cls.decisionsToDFA = [DFA(ds, i) for i, ds in enumerate(cls.atn.decisionToState)]
        if hasattr(cls, "sharedContextCache"):
            cls.sharedContextCache = PredictionContextCache()


def shards(tier, seed):
    q = tier == "quick"
    out = [{"seed": s, "pool": 18 if q else 60, "schedules": 4 if q else 40, "tier": tier} for s in shard_seeds(seed, 16, "C12")]
    # K-COLD (vf/cold.py): the first calls of a fresh interpreter overlap, thread A held inside the functions that write process-wide state
    for i, s in enumerate(shard_seeds(seed, 4 if q else 12, "C12cold")):
        out.append({"kind": "cold", "seed": s, "index": i, "pairs": 1 if q else 4, "max_points": 12 if q else 64, "tier": tier})
    return out


def gen_schedule(rnd, pool, force=None):
    nt = rnd.choice([2, 3, 4, 6, 8, 12, 16])
    style = rnd.choice(["mixed", "mixed", "same-input", "compile-only", "decompile-only"])
    big = [i for i in range(len(pool)) if pool[i].get("cls") == "many-routines"]
    ids = [i for i in range(len(pool)) if i not in big]
    if style == "compile-only":
        ids = [i for i in ids if pool[i]["k"] == "compile"] or ids
    elif style == "decompile-only":
        ids = [i for i in ids if pool[i]["k"] != "compile"] or ids
    until = False
    per = rnd.randint(1, 3 if nt > 6 else 4)
    if style == "same-input":
        one = [rnd.choice(ids) for _ in range(per)]
        assign = [list(one) for _ in range(nt)]
    else:
        assign = [[rnd.choice(ids) for _ in range(per)] for _ in range(nt)]
    deep = sorted((i for i in range(len(pool)) if pool[i].get("cls") == "deep-nesting" and pool[i].get("keep")), key=lambda i: -len(pool[i]["text"]))
    if force in ("deep", "big"):
        style = "mixed"
    if deep and (force == "deep" or (force is None and style in ("mixed", "compile-only") and rnd.random() < 0.35)):
        # one thread compiles a deeply nested script (twice) while the others start and finish small calls all the time
        assign = [[deep[0], deep[0]]] + [[rnd.choice(ids) for _ in range(6)] for _ in range(min(nt, 5) - 1)]
        until = True
    elif big and (force == "big" or (force is None and style in ("mixed", "decompile-only") and rnd.random() < 0.5)):
        # one thread works on a script with hundreds of routines while the others do small things
        dec = [i for i in ids if pool[i]["k"] != "compile"] or ids
        assign = [[big[0]]] + [[rnd.choice(dec) for _ in range(6)] for _ in range(min(nt, 5) - 1)]
        until = True
    return {"threads": assign, "style": style, "until_thread0_done": until, "p": rnd.choice([0.0, 0.02, 0.1, 0.3]), "cold": rnd.random() < 0.75,
            "noise": rnd.random() < 0.6,
            "switchinterval": rnd.choice([1e-6, 1e-6, 1e-5, 0.005]), "seed": rnd.randrange(1 << 30)}


def run_schedule(acc, pool, gold, sched, base_inp):
    if sched["cold"]:
        reset_antlr_caches()
    nt = len(sched["threads"])
    barrier = threading.Barrier(nt)
    records = []
    done0 = threading.Event()
    clock = time.monotonic_ns

    def worker(idx):
        KS.tls.idx = idx
        KS.tls.rng = random.Random(sched["seed"] * 31 + idx)
        try:
            barrier.wait(timeout=60)
        except threading.BrokenBarrierError:
            return
        jobs = list(sched["threads"][idx])
        k = 0
        while k < len(jobs):
            j = jobs[k]
            k += 1
            if sched.get("until_thread0_done") and idx != 0 and k == len(jobs) and not done0.is_set() and k < 120:
                jobs += sched["threads"][idx]  # keep the small jobs coming while thread 0 is still busy with the big one
            job = pool[j]
            t0 = clock()
            try:
                res = hist.compute(job)
            except BaseException as e:  # compute() catches Exception; anything else is the harness' problem
                res = {"ok": False, "exc": "HARNESS:" + type(e).__name__, "msg": str(e)[:200]}
            records.append((idx, j, t0, clock(), res))
            if sched.get("until_thread0_done") and idx != 0:
                time.sleep(0.003)  # a client pauses between its calls: periods in which only the long call is running
        if idx == 0:
            done0.set()

    # the rest of the application: a thread that has nothing to do with scripts but uses the interpreter-wide services every
    # program uses (the warnings machinery, logging, the allocator / collector) while the calls are running
    stop_noise = threading.Event()
    noise_count = [0]

    def noise():
        import gc
        import logging
        import warnings
        lg = logging.getLogger("some.other.part.of.the.application")
        while not stop_noise.is_set():
            warnings.warn("a warning of another thread", DeprecationWarning)
            warnings.warn("a warning of another thread", RuntimeWarning)
            lg.debug("a log line of another thread %d", noise_count[0])
            noise_count[0] += 1
            if noise_count[0] % 500 == 0:
                gc.collect(0)
            time.sleep(0)

    nt_thread = threading.Thread(target=noise, daemon=True) if sched.get("noise") else None
    old = sys.getswitchinterval()
    sys.setswitchinterval(sched["switchinterval"])
    KS.start(sched["p"])
    if nt_thread is not None:
        nt_thread.start()
    ts = [threading.Thread(target=worker, args=(i,), daemon=True) for i in range(nt)]
    try:
        for t in ts:
            t.start()
        deadline = time.time() + 600
        for t in ts:
            t.join(max(1, deadline - time.time()))
        hung = [t for t in ts if t.is_alive()]
    finally:
        stop_noise.set()
        if nt_thread is not None:
            nt_thread.join(10)
        KS.stop()
        sys.setswitchinterval(old)
    if nt_thread is not None:
        acc.count("schedules_with_a_noise_thread")
        acc.count("warnings_and_log_lines_emitted_by_the_noise_thread", noise_count[0])
    inp = dict(base_inp, schedule=sched)
    if hung:
        acc.inconc("threads-still-running-after-600s", {"threads": len(hung)})
        return False
    # ---- offline checks over the recorded history
    acc.count("schedules")
    acc.count("calls_observed", len(records))
    overlap = 0
    for a in range(len(records)):
        for b in range(a + 1, len(records)):
            ra, rb = records[a], records[b]
            if ra[0] != rb[0] and ra[2] < rb[3] and rb[2] < ra[3]:
                overlap += 1
    acc.count("overlapping_call_pairs", overlap)
    ev = KS.events
    switches = sum(1 for x, y in zip(ev, ev[1:]) if x != y)
    acc.count("ksched_events", len(ev))
    acc.count("thread_switches_between_ksched_events", switches)
    acc.add_to_set("interleaving_signatures", hash(tuple(ev[:400])) & 0xffffffff)
    acc.case(json.dumps([sched["threads"], tuple(ev[:400])]), overlap > 0)
    for idx, j, t0, t1, res in records:
        job = pool[j]
        g = gold.get(job["id"], {}).get("0")
        if g is None:
            acc.count("calls_without_golden")
            continue
        diff = hist.diff_fields(g, res)
        if diff == ["msg"]:
            acc.count("same_exception_other_message")
            diff = []
        if job["k"] != "compile" and not res.get("input_unchanged", True):
            acc.violation(gsig("decompilation-altered-its-input", job["k"]), res.get("input_change"), dict(inp, observed=job))
        if diff:
            kind = "raised-because-of-the-others" if g.get("ok") and not res.get("ok") else "result-differs-from-sequential"
            acc.violation(gsig(kind, job["k"], res.get("exc") if kind.startswith("raised") else "+".join(diff)),
                          {"fields": diff, "thread": idx, "threads": nt, "style": sched["style"], "cold": sched["cold"],
                           "sequential": {k: _short(g.get(k)) for k in diff}, "concurrent": {k: _short(res.get(k)) for k in diff},
                           "overlapping_pairs_in_schedule": overlap}, dict(inp, observed=job))
    for e in hist.KCACHE.drain():
        acc.violation(gsig("memo-entry-of-another-graph-answered"), e, inp)
    for name, val in hist.class_level_state_problems():
        acc.violation(gsig("class-level-state-written", name), {"value": val}, inp)
    if KS.shared_state_seen:
        acc.violation(gsig("class-level-state-written", "seen-non-empty-while-threads-were-decompiling"), {"observations": KS.shared_state_seen}, inp)
        KS.shared_state_seen = 0
    return True


def _short(x):
    s = x if isinstance(x, str) else json.dumps(x, default=repr)
    return s[:500]


COLD_SOURCE = """def 0 for actor ACTOR_X {
    $X = 3;
    with (actor ACTOR_PLAYER) { Turn(1); }
    if ($A == 1) { a(); } else { b(); }
    switch ($B) { case 1: c(); break; default: d(); }
    forever { e(); if (debug) { break_loop; } }
    message_SwitchTalk ($V) { case 1: 'one' default: 'def' }
    clear $Y;
    hold;
}
macro m($p) { f($p); if ($C > 2) { return; } g(); }
def 1 {
    if ($Q == 1) { jump @inside; }
    forever { g(); §inside; h(); if (debug) { break_loop; } }
    while ($W < 3) { i(); for ($I = 0; $I < 2; $I += 1;) { j(); } }
    end;
}
coro CO { ~m(4); $Z += 1; dungeon_mode(3) = 1; end; }
"""


def cold_run(spec, timeout=300):
    import os
    import subprocess
    from vf.env import PY, REPO, VERIF
    env = dict(os.environ, PYTHONPATH=REPO + os.pathsep + VERIF, PYTHONHASHSEED="0", PYTHONDONTWRITEBYTECODE="1", VERIF_REPO=REPO)
    try:
        p = subprocess.run([PY, "-m", "vf.cold"], input=json.dumps(spec), capture_output=True, text=True, env=env, timeout=timeout)
        return json.loads(p.stdout) if p.returncode == 0 else None
    except Exception:
        return None


def cold_check_point(acc, a, b, ga, gb, site, nth):
    """one fresh interpreter: thread A held at its nth line inside `site`, thread B runs meanwhile. Returns False when A never got there."""
    spec = {"mode": "pause", "a": a, "b": b, "site": site, "nth": nth}
    q = cold_run(spec)
    acc.count("cold_pause_runs")
    if q is None or q.get("hung"):
        acc.inconc("cold-start-run-failed", {"site": site["qualname"], "nth": nth})
        return True
    if not q.get("reached"):
        return False
    acc.count("cold_pause_points_reached")
    if q.get("b_waited_for_a"):
        acc.count("cold_pause_points_inside_a_lock_the_other_thread_waits_for")
    acc.add_to_set("cold_pause_points", f"{site['qualname']}:{q.get('held_at_line')}")
    acc.case(json.dumps([site["qualname"], nth, a.get("k"), b.get("k"), hist.digest(a), hist.digest(b)]), True)
    for who, job, g, r in (("held thread", a, ga, q.get("a")), ("other thread", b, gb, q.get("b"))):
        if r is None or g is None:
            continue
        diff = [f for f in hist.diff_fields(g, r) if f != "msg"]
        if job["k"] != "compile" and not r.get("input_unchanged", True):
            diff.append("input")
        if diff:
            acc.violation(gsig("first-calls-of-a-process-overlapped", "result-differs-from-sequential", job["k"], "+".join(diff)),
                          {"which": who, "fields": diff, "writer_site": site["qualname"], "state_written_there": site.get("state"),
                           "held_at_line": q.get("held_at_line"), "nth_line": nth,
                           "sequential": {k: _short(g.get(k)) for k in diff}, "concurrent": {k: _short(r.get(k)) for k in diff}},
                          {"cold": spec})
    return True


def run_cold(shard, acc):
    from concurrent.futures import ThreadPoolExecutor
    rnd = random.Random(shard["seed"] ^ 0xC01D)
    scratch = tempfile.mkdtemp(prefix="verif_c12c_")
    try:
        c = norm.compile_exps(COLD_SOURCE)
        fixed_d = {"k": "decompile_exps", "spec": json.loads(json.dumps(norm.spec_of(c.routine_infos, c.routine_ops, c.named_coroutines))), "cls": "fixed", "id": "fd"}
        fixed_c = {"k": "compile", "text": COLD_SOURCE, "cls": "fixed", "id": "fc"}
        pool = [j for j in hist.make_pool(shard["seed"], 24, scratch) if j["cls"] in ("valid", "compiled", "relaid", "flat", "cfg", "layout", "ssbscript", "macro-name-clash")]
        dec = [fixed_d] + [j for j in pool if j["k"] != "compile"]
        com = [fixed_c] + [j for j in pool if j["k"] == "compile"]
        for pi in range(shard["pairs"]):
            mode = (shard.get("index", 0) + pi) % 4
            first = pi == 0
            a = (dec if mode in (0, 2) else com)[0 if first else rnd.randrange(len(dec if mode in (0, 2) else com))]
            bl = dec if mode in (0, 3) else com
            b = bl[0] if (first and mode in (0, 1)) else rnd.choice(bl)
            ga, gb = hist.golden(a), hist.golden(b)
            if ga is None or gb is None:
                acc.inconc("fresh-process-failed", {"job": a.get("cls")})
                continue
            acc.announce("cold-probe", {"a": a["k"], "b": b["k"]})
            pr = cold_run({"mode": "probe", "a": a})
            acc.count("cold_probes")
            if pr is None:
                acc.inconc("cold-start-probe-failed", {})
                continue
            acc.count("cold_probe_events", pr["events"])
            acc.maxc("max:cold_state_names_watched", pr["state_names"])
            if [f for f in hist.diff_fields(ga, pr["result"]) if f != "msg"]:
                # (the probe is a single-threaded fresh process: this is C11's business, but it would make every comparison below moot)
                acc.inconc("probe-result-differs-from-the-other-fresh-process", {"fields": hist.diff_fields(ga, pr["result"])})
                continue
            for w in pr["writers"]:
                acc.add_to_set("cold_writer_sites", w["qualname"])
                for st in w["state"]:
                    acc.add_to_set("process_wide_state_written_by_a_first_call", st)
            for w in pr["writers"]:
                nths = list(range(1, shard["max_points"] + 1))
                with ThreadPoolExecutor(4) as ex:
                    for k in range(0, len(nths), 4):
                        rs = list(ex.map(lambda n: cold_check_point(acc, a, b, ga, gb, w, n), nths[k:k + 4]))
                        if not all(rs):
                            break
            acc.count("cold_pairs")
            if first:
                acc.sample({"cold_start": {"a": a["k"], "b": b["k"], "writer_sites": [{"site": w["qualname"], "state": w["state"]} for w in pr["writers"]]}})
    finally:
        shutil.rmtree(scratch, ignore_errors=True)


def run_shard(shard, acc, forced=None):
    if shard.get("kind") == "cold":
        monitors.install()
        return run_cold(shard, acc)
    monitors.install()
    hist.KCACHE.install()
    rnd = random.Random(shard["seed"] ^ 12)
    scratch = tempfile.mkdtemp(prefix="verif_c12_")
    try:
        pool = hist.make_pool(shard["seed"], shard["pool"], scratch)
        gold = hist.goldens(pool, hashseeds=("0",), threads=2)
        for j in pool:
            if gold[j["id"]].get("0") is None:
                acc.inconc("fresh-process-failed", {"job": j["id"]})
        base = {"pool": {"seed": shard["seed"], "n": shard["pool"]}}
        hist.KCLOCK.install()  # a thread that is kept from running sees time pass: clocks read by repository code jump ahead (vf/hist.py)
        if forced is not None:
            for _ in range(forced[1]):
                run_schedule(acc, pool, gold, forced[0], base)
            return
        for s in range(shard["schedules"]):
            # (every shard has one schedule around the deeply nested script and one around the script with hundreds of routines)
            sched = gen_schedule(rnd, pool, force={0: "deep", 1: "deep", 2: "big"}.get(s))
            if s == 0:
                sched["cold"] = False  # the very first schedule of the process has genuinely cold caches anyway
            acc.announce("schedule", {"threads": len(sched["threads"]), "style": sched["style"]})
            run_schedule(acc, pool, gold, sched, base)
            acc.count("style:" + sched["style"])
            acc.count("cold_cache_schedules", 1 if (sched["cold"] or s == 0) else 0)
        for k, v in KS.yields.items():
            acc.count("yields@" + k, v)
        for k, v in hist.KCACHE.counts.items():
            acc.count("K-CACHE:" + k, v)
        acc.count("K-CLOCK:clock_readings_by_repository_code", hist.KCLOCK.reads)
        for k, v in hist.KCLOCK.sites.items():
            acc.count("K-CLOCK:site:" + k, v)
        acc.sample({"schedule": {k: v for k, v in sched.items() if k != "threads"}, "threads": sched["threads"][:4]})
    finally:
        shutil.rmtree(scratch, ignore_errors=True)


def summarize(agg, tier):
    c = agg["counters"]
    cov = {
        "rule": "a schedule = one barrier-started run of 2..16 threads over pool inputs under K-SCHED; distinct by the thread assignment and "
                "the order in which threads passed the instrumented sites; non-trivial = at least two calls of different threads overlapped in time",
        "schedules": c.get("schedules", 0), "calls_observed": c.get("calls_observed", 0),
        "overlapping_call_pairs": c.get("overlapping_call_pairs", 0),
        "cold_cache_schedules": c.get("cold_cache_schedules", 0),
        "schedules_with_a_noise_thread (warnings, log lines, gc from a thread that does not use the library)": c.get("schedules_with_a_noise_thread", 0),
        "noise_thread_rounds": c.get("warnings_and_log_lines_emitted_by_the_noise_thread", 0),
        "ksched_events": c.get("ksched_events", 0), "thread_switches_between_ksched_events": c.get("thread_switches_between_ksched_events", 0),
        "distinct_interleaving_signatures": len(agg.get("sets", {}).get("interleaving_signatures", [])),
        "yields_injected_per_site": {k[7:]: v for k, v in c.items() if k.startswith("yields@")},
        "styles": {k[6:]: v for k, v in c.items() if k.startswith("style:")},
        "K-CACHE": {k[8:]: v for k, v in c.items() if k.startswith("K-CACHE:")},
        "K-CLOCK": {"clock_readings_by_repository_code (each answered one hour ahead of the previous one)": c.get("K-CLOCK:clock_readings_by_repository_code", 0),
                    "sites": {k[13:]: v for k, v in c.items() if k.startswith("K-CLOCK:site:")}},
    }
    cov["K-COLD"] = {
        "rule": "fresh interpreters: a probe run finds the functions during which process-wide state of the repository's modules changes; "
                "then one interpreter per (function, n): thread A is held at its n-th line inside the function while thread B runs a whole call",
        "probes": c.get("cold_probes", 0), "job_pairs": c.get("cold_pairs", 0), "probe_events": c.get("cold_probe_events", 0),
        "state_names_watched": c.get("max:cold_state_names_watched", 0),
        "writer_sites": sorted(agg.get("sets", {}).get("cold_writer_sites", [])),
        "process_wide_state_written_by_a_first_call": sorted(agg.get("sets", {}).get("process_wide_state_written_by_a_first_call", [])),
        "pause_runs": c.get("cold_pause_runs", 0), "pause_points_reached": c.get("cold_pause_points_reached", 0),
        "distinct_pause_points": len(agg.get("sets", {}).get("cold_pause_points", [])),
        "pause_points_inside_a_lock_the_other_thread_waited_for": c.get("cold_pause_points_inside_a_lock_the_other_thread_waits_for", 0),
    }
    floors = []
    if c.get("cold_pause_points_reached", 0) < 10:
        floors.append("fewer than 10 cold-start pause points reached")
    need = 50 if tier == "quick" else 500
    if c.get("schedules", 0) < need:
        floors.append(f"fewer than {need} schedules")
    if c.get("overlapping_call_pairs", 0) < 100:
        floors.append("fewer than 100 overlapping call pairs")
    if c.get("thread_switches_between_ksched_events", 0) < 1000:
        floors.append("fewer than 1000 observed thread switches at instrumented sites")
    return cov, not floors, floors


def replay(inp, acc):
    if "cold" in inp:
        sp = inp["cold"]
        ga, gb = hist.golden(sp["a"]), hist.golden(sp["b"])
        cold_check_point(acc, sp["a"], sp["b"], ga, gb, sp["site"], sp["nth"])
        return
    shard = {"seed": inp["pool"]["seed"], "pool": inp["pool"]["n"], "schedules": 0, "tier": "quick"}
    run_shard(shard, acc, forced=(inp["schedule"], 20))
