"""K-COLD: cold-start exploration for C12. Races in state that is built on first use (lazily filled tables, caches) only exist
while the very first calls of a process overlap, so every run here is a fresh interpreter.

  probe:  one thread runs job A cold under sys.monitoring (PY_START / PY_RETURN / PY_UNWIND of repository code). At every event a
          fingerprint of the process-wide state of the repository's modules (module-level and class-level containers and scalars) is
          compared with the previous one; the function during which it changed is a *writer site*. The probe decides nothing, it
          only tells the explorer where to look.
  pause:  two threads. Thread A runs job A and is held at its n-th LINE event inside one writer site; thread B then runs job B from
          start to end (or until it blocks on something A holds), A is released. Both results are returned; the parent compares
          them with the results fresh single-threaded interpreters gave.

usage: python -m vf.cold   (spec on stdin, JSON result on stdout)"""
from __future__ import annotations

import json
import os
import sys
import threading
import types

TOOL = 2
SCALARS = (int, float, str, bool, type(None), bytes, tuple, frozenset)


def _repo_modules(prefix):
    out = []
    for name, m in list(sys.modules.items()):
        f = getattr(m, "__file__", None) or ""
        if m is None or not f.startswith(prefix):
            continue
        if ".antlr." in name or name.endswith(".antlr"):
            continue  # the generated recognisers: their static prediction caches are K-SCHED's business (vf/props/c12.py)
        out.append((name, m))
    return out


def _fingerprint(prefix):
    """name -> cheap value of every module-level / class-level attribute of the repository's modules that can carry state"""
    fp = {}
    # interpreter-wide services a call might reconfigure for a moment (every other thread of the process sees that)
    import warnings
    import logging
    fp["interpreter.warnings.filters"] = (id(warnings.filters), len(warnings.filters), getattr(warnings, "_filters_version", 0))
    fp["interpreter.warnings.showwarning"] = id(warnings.showwarning)
    fp["interpreter.warnings._showwarnmsg"] = id(getattr(warnings, "_showwarnmsg", None))
    fp["interpreter.cwd"] = os.getcwd()
    fp["interpreter.recursionlimit"] = sys.getrecursionlimit()
    fp["interpreter.switchinterval"] = sys.getswitchinterval()
    fp["interpreter.stdout"] = id(sys.stdout)
    fp["interpreter.stderr"] = id(sys.stderr)
    fp["interpreter.environ"] = len(os.environ)
    fp["interpreter.logging.disable"] = logging.root.manager.disable
    fp["interpreter.logging.root.level"] = logging.root.level
    for mname, m in _repo_modules(prefix):
        for k, v in list(vars(m).items()):
            if k.startswith("__"):
                continue
            if isinstance(v, (dict, list, set, bytearray)):
                fp[f"{mname}.{k}"] = (id(v), len(v))
            elif isinstance(v, SCALARS) and not isinstance(v, (tuple, frozenset)):
                fp[f"{mname}.{k}"] = v if not isinstance(v, str) or len(v) < 80 else hash(v)
            elif isinstance(v, type) and getattr(v, "__module__", None) == mname:
                for ck, cv in list(vars(v).items()):
                    if ck.startswith("__"):
                        continue
                    if isinstance(cv, (dict, list, set, bytearray)):
                        fp[f"{mname}.{v.__name__}.{ck}"] = (id(cv), len(cv))
                    elif isinstance(cv, SCALARS) and not isinstance(cv, (tuple, frozenset, str)):
                        fp[f"{mname}.{v.__name__}.{ck}"] = cv
    return fp


def probe(spec, prefix):
    from vf import hist

    m = sys.monitoring
    state = {"fp": None, "writers": {}, "events": 0}

    def check(code, returning):
        state["events"] += 1
        fp = _fingerprint(prefix)
        old = state["fp"]
        state["fp"] = fp
        if old is None or fp == old:
            return
        # (names that appear are modules imported on first use: imports are serialised by the interpreter's import lock)
        changed = sorted(k for k in set(fp) & set(old) if fp[k] != old[k])
        if not changed:
            return
        if returning:
            c = code
        else:
            fr = sys._getframe(2).f_back  # the caller of the function that is starting
            c = fr.f_code if fr is not None else code
        if not c.co_filename.startswith(prefix) or c.co_qualname == "<module>":
            return
        key = (c.co_filename, c.co_qualname, c.co_firstlineno)
        w = state["writers"].setdefault(key, set())
        w.update(changed)

    def on_start(code, off):
        if not code.co_filename.startswith(prefix):
            return m.DISABLE
        check(code, False)

    def on_return(code, off, val):
        if not code.co_filename.startswith(prefix):
            return m.DISABLE
        check(code, True)

    def on_unwind(code, off, exc):
        if code.co_filename.startswith(prefix):
            check(code, True)

    from vf import norm  # noqa: F401  (imports the repository; the fingerprint needs its modules)
    import explorerscript.ssb_converting.ssb_decompiler, explorerscript.ssb_converting.ssb_compiler  # noqa: F401,E401
    state["fp"] = _fingerprint(prefix)
    # taps on the standard entry points that reconfigure something interpreter-wide (some of it is kept in C and cannot be
    # fingerprinted, e.g. the warning filters): the repository function that calls one of them is a writer site too
    import gc, locale, logging, random as _random, signal, warnings  # noqa: E401

    def tap(holder, attr, label):
        orig = getattr(holder, attr, None)
        if orig is None:
            return

        def wrapper(*a, **k):
            f = sys._getframe(1)
            for _ in range(6):
                if f is None:
                    break
                c = f.f_code
                if c.co_filename.startswith(prefix) and c.co_qualname != "<module>":
                    state["writers"].setdefault((c.co_filename, c.co_qualname, c.co_firstlineno), set()).add("interpreter." + label)
                    break
                f = f.f_back
            return orig(*a, **k)

        try:
            setattr(holder, attr, wrapper)
        except (TypeError, AttributeError):
            pass

    for holder, attr, label in ((warnings.catch_warnings, "__enter__", "warnings.catch_warnings"), (warnings, "simplefilter", "warnings.simplefilter"),
                                (warnings, "filterwarnings", "warnings.filterwarnings"), (warnings, "resetwarnings", "warnings.resetwarnings"),
                                (os, "chdir", "os.chdir"), (os, "putenv", "os.putenv"), (os, "umask", "os.umask"),
                                (sys, "setrecursionlimit", "sys.setrecursionlimit"), (sys, "setswitchinterval", "sys.setswitchinterval"),
                                (sys, "settrace", "sys.settrace"), (sys, "setprofile", "sys.setprofile"),
                                (locale, "setlocale", "locale.setlocale"), (logging, "disable", "logging.disable"),
                                (logging, "basicConfig", "logging.basicConfig"), (signal, "signal", "signal.signal"),
                                (gc, "disable", "gc.disable"), (gc, "enable", "gc.enable"), (gc, "freeze", "gc.freeze"),
                                (_random, "seed", "random.seed")):
        tap(holder, attr, label)
    m.use_tool_id(TOOL, "vf-cold-probe")
    m.register_callback(TOOL, m.events.PY_START, on_start)
    m.register_callback(TOOL, m.events.PY_RETURN, on_return)
    m.register_callback(TOOL, m.events.PY_UNWIND, on_unwind)
    m.set_events(TOOL, m.events.PY_START | m.events.PY_RETURN | m.events.PY_UNWIND)
    try:
        res = hist.compute(spec["a"])
    finally:
        m.set_events(TOOL, 0)
        m.free_tool_id(TOOL)
    check(probe.__code__, True)
    return {"result": res, "events": state["events"], "state_names": len(state["fp"]),
            "writers": [{"file": k[0], "qualname": k[1], "firstlineno": k[2], "state": sorted(v)} for k, v in sorted(state["writers"].items())]}


def _find_code(site):
    """the code object of a writer site (searched in the functions and classes of the loaded repository modules)"""
    found = []
    from vf import env
    import importlib
    rel = os.path.relpath(site["file"], env.REPO)
    if not rel.startswith(".."):
        try:
            # (the write handlers are imported on first use: the module has to be there before its code can be instrumented)
            importlib.import_module(rel[:-3].replace(os.sep, "."))
        except Exception:
            pass

    def visit(code):
        if code.co_filename == site["file"] and code.co_qualname == site["qualname"] and code.co_firstlineno == site["firstlineno"]:
            found.append(code)
        for c in code.co_consts:
            if isinstance(c, types.CodeType):
                visit(c)

    for name, mod in list(sys.modules.items()):
        if getattr(mod, "__file__", None) != site["file"]:
            continue
        for v in list(vars(mod).values()):
            fs = []
            if isinstance(v, types.FunctionType):
                fs.append(v)
            elif isinstance(v, type):
                for cv in vars(v).values():
                    cv = getattr(cv, "__func__", cv)
                    cv = getattr(cv, "__wrapped__", cv)
                    if isinstance(cv, types.FunctionType):
                        fs.append(cv)
                    elif isinstance(cv, property) and cv.fget is not None:
                        fs.append(cv.fget)
            for f in fs:
                visit(f.__code__)
    return found[0] if found else None


def pause(spec, prefix):
    from vf import hist, norm  # noqa: F401
    import explorerscript.ssb_converting.ssb_decompiler, explorerscript.ssb_converting.ssb_compiler  # noqa: F401,E401

    site, nth = spec["site"], spec["nth"]
    code = _find_code(site)
    if code is None:
        return {"reached": False, "why": "writer site not found"}
    m = sys.monitoring
    paused, resume = threading.Event(), threading.Event()
    st = {"n": 0, "a": None, "held_at_line": None}
    out = {}

    def on_line(c, line):
        if threading.current_thread() is not st["a"] or paused.is_set():
            return
        st["n"] += 1
        if st["n"] == nth:
            st["held_at_line"] = line
            paused.set()
            resume.wait(60)

    def run(key, job):
        try:
            out[key] = hist.compute(job)
        except BaseException as e:
            out[key] = {"ok": False, "exc": "HARNESS:" + type(e).__name__, "msg": str(e)[:200]}

    m.use_tool_id(TOOL, "vf-cold-pause")
    m.register_callback(TOOL, m.events.LINE, on_line)
    m.set_local_events(TOOL, code, m.events.LINE)
    ta = threading.Thread(target=run, args=("a", spec["a"]), daemon=True)
    st["a"] = ta
    tb = threading.Thread(target=run, args=("b", spec["b"]), daemon=True)
    ta.start()
    while ta.is_alive() and not paused.wait(0.01):
        pass
    reached = paused.is_set()
    b_blocked = False
    if reached:
        # the rest of the application goes on while A is held: a warning and a log line from this (third) thread
        import warnings
        import logging
        warnings.warn("a warning of another thread", DeprecationWarning)
        warnings.warn("a warning of another thread", RuntimeWarning)
        logging.getLogger("some.other.part.of.the.application").debug("a log line of another thread")
        tb.start()
        tb.join(spec.get("b_wait", 2))
        b_blocked = tb.is_alive()  # B waits for something A holds: this interleaving does not exist, let A go on
    resume.set()
    ta.join(120)
    if not reached:
        tb.start()
    tb.join(120)
    m.set_local_events(TOOL, code, 0)
    m.free_tool_id(TOOL)
    return {"reached": reached, "held_at_line": st["held_at_line"], "b_waited_for_a": b_blocked, "a": out.get("a"), "b": out.get("b"),
            "hung": ta.is_alive() or tb.is_alive()}


def main():
    from vf import env
    spec = json.load(sys.stdin)
    prefix = os.path.join(env.REPO, "explorerscript")
    res = probe(spec, prefix) if spec["mode"] == "probe" else pause(spec, prefix)
    json.dump(res, sys.stdout, default=repr)
    sys.stdout.flush()
    os._exit(0)


if __name__ == "__main__":
    main()
