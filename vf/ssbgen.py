"""G-SSB (SSB routine sets as a binary reader delivers them) and G-VAL (hostile parameter values)."""
from __future__ import annotations

import random

from vf.lts import JUMP_IDX

STR_ATOMS = ["a", "b", "Hello", " ", "  ", "\n", "'", '"', "\\", "'''", '"""', "\\n", "\t", "x", "ü", "{", "}", "/*", "*/", "//", ";",
             "\\'", '\\"', "[CN]", ",", "=", "@l", "§", "0", ".5", "\\\\"]
CTL_ATOMS = ["\r", "\f", "\x0b", " ", "\x85", "\x1c", "\r\n", "\x00"]
SAFE_ATOMS = ["a", "b", "Hello", " ", "x", "ü", "{", "}", "/*", "*/", "//", ";", "[CN]", ",", "=", "@l", "0", ".5", "'", '"']


def gval_string(r: random.Random, hostile=1.0):
    """String value. hostile: share of values drawn from the full escape / dedent alphabet."""
    c = r.random()
    if c > hostile:
        return "".join(r.choice(SAFE_ATOMS) for _ in range(r.randint(0, 5)))
    if c < 0.06 * hostile:
        return "".join(r.choice(STR_ATOMS + CTL_ATOMS) for _ in range(r.randint(1, 6)))
    n = r.choice([0, 1, 2, 3, 4, 6, 9])
    s = "".join(r.choice(STR_ATOMS) for _ in range(n))
    if r.random() < 0.15:
        # multi-line text with indentation patterns
        lines = []
        for _ in range(r.randint(2, 4)):
            lines.append(" " * r.choice([0, 0, 1, 2, 4]) + r.choice(["l", "line", "", " ", "x y", "\tt", "a\u2028b", "x\x0by", "p\x85q", "s\x1ct", "u\u2029", "//?: is-ssb-script: false",
                                                                   "//?: is-ssb-script: true", "// comment", "def 0 {"]))
        s = "\n".join(lines) + r.choice(["", "\n", "\n  ", " "])
    return s


def gval_param(r: random.Random, hostile=1.0, allow_pos=True):
    c = r.random()
    if c < 0.25:
        return ("int", r.choice([0, 1, 2, 3, -1, 7, 19, 255, 16383, -16384, 32767, 2 ** 40, -(2 ** 33)]))
    if c < 0.4:
        return ("const", r.choice(["CONST_A", "$VAR", "$SCENARIO_MAIN", "ACTOR_PLAYER", "_x", "DMODE_OPEN", "a1", "actor", "previous_x"]))
    if c < 0.5:
        w = r.choice(["0", "1", "63", "-1", "-0", "-12", "120", "-10", "-120", "-100", "10", "100"])
        f = r.choice(["0", "5", "25", "003", "996", "50", "000", "10"])
        return ("fp", f"{w}.{f}")
    if c < 0.72:
        return ("str", gval_string(r, hostile))
    if c < 0.87:
        langs = r.sample(["english", "french", "german", "italian", "spanish", "japanese"], r.randint(1, 3))
        return ("lang", tuple((l, gval_string(r, hostile)) for l in langs))
    if allow_pos:
        name = r.choice(["m", "Mark 1", "", "ü"]) if r.random() > 0.1 * hostile else r.choice(["it's", 'q"', "a\\b", "n\nl"])
        return ("pos", name, r.choice([0, 2, 4]),
                r.choice([0, 2]), r.choice([0, 1, 20, 255, -3, -1, -1]), r.choice([0, 5, 47, -1]))
    return ("int", r.randint(0, 9))


PLAIN_NAMES = ["Wait", "camera_SetMyself", "debug_Print", "message_Talk", "se_Play", "op", "flag_Sth", "SwitchSth", "CaseSth", "BranchSth",
               "if", "switch", "end", "jump", "not", "case", "with", "macro", "import", "message_SwitchMenu", "ProcessSpecial", "Destroy",
               "main_EnterAdventure", "lives_x", "back_SetGround", "x_1"]
SPECIAL_PLAIN = ["flag_Set", "flag_Clear", "flag_CalcValue", "flag_SetDungeonMode", "flag_CalcBit", "flag_SetPerformance", "flag_SetScenario",
                 "flag_ResetDungeonResult", "flag_SetAdventureLog", "flag_Initial", "flag_ResetScenario", "flag_CalcVariable",
                 "Switch", "SwitchScenario", "SwitchRandom", "SwitchSector", "SwitchDungeonMode", "SwitchScenarioLevel",
                 "message_SwitchTalk", "message_SwitchMonologue", "CaseText", "DefaultText", "lives", "object", "performer",
                 "Return", "End", "Hold", "JumpCommon"]
JUMP_NAMES = list(JUMP_IDX)


IL = "intlike"
INT = "int"
STR = "string"
# parameter kinds of the operations with special ExplorerScript syntax (what a binary reader delivers for them)
SPECIAL_SIG = {
    "flag_CalcBit": [IL, INT, IL], "flag_CalcValue": [IL, ("op", 1, 4), IL], "flag_CalcVariable": [IL, ("op", 0, 4), IL], "flag_Clear": [IL],
    "flag_Initial": [IL], "flag_ResetScenario": [IL], "flag_ResetDungeonResult": [], "flag_Set": [IL, IL], "flag_SetAdventureLog": [IL],
    "flag_SetDungeonMode": [IL, IL], "flag_SetPerformance": [INT, IL], "flag_SetScenario": [IL, INT, INT],
    "Branch": [IL, IL], "BranchBit": [IL, INT], "BranchDebug": [("op", 0, 1)], "BranchEdit": [("op", 0, 1)], "BranchVariation": [("op", 0, 1)],
    "BranchPerformance": [INT, ("op", 0, 1)], "BranchScenarioNow": [IL, INT, INT], "BranchScenarioNowAfter": [IL, INT, INT],
    "BranchScenarioNowBefore": [IL, INT, INT], "BranchScenarioAfter": [IL, INT, INT], "BranchScenarioBefore": [IL, INT, INT],
    "BranchValue": [IL, ("op", 0, 10), IL], "BranchVariable": [IL, ("op", 0, 10), IL], "BranchExecuteSub": [IL], "BranchSum": [IL, ("op", 0, 10), IL],
    "Switch": [IL], "SwitchScenario": [IL], "SwitchScenarioLevel": [IL], "SwitchRandom": [IL], "SwitchDungeonMode": [IL], "SwitchSector": [],
    "Case": [IL], "CaseMenu": [STR], "CaseMenu2": [IL], "CaseValue": [("op", 0, 10), IL], "CaseVariable": [("op", 0, 10), IL],
    "CaseScenario": [("op", 0, 10), IL],
    "message_SwitchTalk": [IL], "message_SwitchMonologue": [IL], "CaseText": [IL, STR], "DefaultText": [STR],
    "lives": [IL], "object": [IL], "performer": [IL], "Return": [], "End": [], "Hold": [], "JumpCommon": [IL], "Jump": [], "Call": [],
}
ES_KEYWORDS = {"if", "switch", "end", "jump", "not", "case", "with", "macro", "import", "for", "while", "forever", "default", "else",
               "elseif", "return", "hold", "continue", "break", "break_loop", "call", "value", "debug", "edit", "variation", "random",
               "sector", "dungeon_mode", "menu", "menu2", "clear", "reset", "init", "scn", "dungeon_result", "adventure_log",
               "message_SwitchTalk", "message_SwitchMonologue", "coro", "def", "alias", "previous", "Position", "TRUE", "FALSE"}


def typed_param(r, kind, hostile):
    if kind == IL:
        return r.choice([("int", r.choice([0, 1, 2, 3, 7, 19, -1, 255, 32767])), ("const", r.choice(["$VAR", "CONST_A", "$SCENARIO_MAIN", "_x", "a1"])),
                         ("fp", r.choice(["1.5", "-0.25", "63.996", "-10.5", "-100.25", "20.0"]))])
    if kind == INT:
        return ("int", r.choice([0, 1, 2, 7, 30, 255, -1]))
    if kind == STR:
        if r.random() < 0.5:
            return ("str", gval_string(r, hostile))
        langs = r.sample(["english", "french", "german"], r.randint(1, 3))
        return ("lang", tuple((l, gval_string(r, hostile)) for l in langs))
    if isinstance(kind, tuple):
        return ("int", r.randint(kind[1], kind[2]))
    raise ValueError(kind)


def random_ssb(r: random.Random, hostile=0.3, max_routines=4, max_ops=10, well_formed=False, special_p=0.15, typed=False,
               keyword_names=True):
    """typed: operations with special syntax get parameters of the kinds their syntax has (a binary reader knows the
    parameter types of each opcode); keyword_names: plain opcode names may be ExplorerScript keywords"""
    """Arbitrary SSB routine set with in-range jump targets. Returns spec for norm.make_ops."""
    n = r.randint(1, max_routines)
    coro = r.random() < 0.15
    routines = []
    start = r.choice([0, 1, 1, 5])
    off = start
    all_offsets = []
    shapes = []
    for ri in range(n):
        m = 0 if (ri > 0 and r.random() < 0.12) else r.randint(1, max_ops)
        offs = []
        for _ in range(m):
            offs.append(off)
            off += 1 if r.random() < 0.8 else r.randint(2, 5)
        all_offsets += offs
        shapes.append(offs)
    if not all_offsets:
        shapes[0] = [start]
        all_offsets = [start]
    for ri, offs in enumerate(shapes):
        ops = []
        for i, o in enumerate(offs):
            last = i == len(offs) - 1
            c = r.random()
            if well_formed and last:
                name = r.choice(["Return", "End", "Hold", "Jump", "Return", "End"])
                if name == "Jump":
                    ops.append((o, "Jump", [("int", r.choice(all_offsets))]))
                else:
                    ops.append((o, name, []))
                continue
            if c < 0.3:
                name = r.choice(JUMP_NAMES)
                ji = JUMP_IDX[name]
                if typed:
                    ps = [typed_param(r, k, hostile) for k in SPECIAL_SIG[name]]
                else:
                    ps = [gval_param(r, hostile, allow_pos=False) if k else ("const", "$V") for k in range(ji)]
                    if name in ("BranchValue", "BranchVariable", "CaseValue", "CaseVariable", "CaseScenario", "BranchSum"):
                        # operator parameter
                        oi = 1 if name.startswith("Branch") else 0
                        if oi < len(ps):
                            ps[oi] = ("int", r.randint(0, 10))
                ps.append(("int", r.choice(all_offsets)))
                ops.append((o, name, ps))
            elif c < 0.3 + special_p:
                name = r.choice(SPECIAL_PLAIN)
                if well_formed and name in ("lives", "object", "performer") and i >= len(offs) - 2:
                    name = "Wait"
                if name in ("Return", "End", "Hold", "JumpCommon"):
                    ops.append((o, name, [] if name != "JumpCommon" else [("int", 3)]))
                elif typed and name in SPECIAL_SIG:
                    ops.append((o, name, [typed_param(r, k, hostile) for k in SPECIAL_SIG[name]]))
                else:
                    ops.append((o, name, [gval_param(r, hostile) for _ in range(r.randint(0, 3))]))
            else:
                names = PLAIN_NAMES if keyword_names else [n for n in PLAIN_NAMES if n not in ES_KEYWORDS]
                ops.append((o, r.choice(names), [gval_param(r, hostile) for _ in range(r.randint(0, 4))]))
        if coro:
            routines.append({"kind": "COROUTINE", "target": None, "name": f"CORO_{ri}", "ops": ops})
        else:
            kind = r.choice(["GENERIC", "ACTOR", "OBJECT", "PERFORMER"])
            tgt = None
            if kind != "GENERIC":
                tgt = r.choice([r.randint(0, 400), "ACTOR_NPC", "OBJ_X", "$T"])
            routines.append({"kind": kind, "target": tgt, "name": None, "ops": ops})
    return {"routines": routines}


def plainify(spec):
    """tuples -> json-able lists with ints unwrapped for make_ops"""
    return spec
