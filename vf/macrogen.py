"""G-MACRO: acyclic macro call graphs spread over files (relative ./ and ../, absolute and lookup-path imports, lookup
shadowing, diamond and nested imports), every definition order, parameters of every kind."""
from __future__ import annotations

import itertools
import os
import random
import shutil
import tempfile

from vf.esast import Printer, Style, render, spell_single
from vf.gen import Gen, Cfg


class Layout:
    """A set of ExplorerScript files on a scratch directory tree. files: key -> program dict (my AST) where key is the path
    relative to the scratch root; imports inside the programs are written as the strings to put into `import "..."`."""

    def __init__(self, files, main_key, lookup_keys, note=""):
        self.files = files  # key -> prog (prog["imports"] holds (kind, spec) tuples, see resolve())
        self.main_key = main_key
        self.lookup_keys = lookup_keys
        self.note = note
        self.root = None
        self.rendered = {}
        self.spelling = None  # (style seed, layout seed): the files are written in an alternative spelling (C16)

    # -- filesystem
    def __enter__(self):
        self.root = tempfile.mkdtemp(prefix="verif_macro_")
        self.rendered = {}
        for n, (key, prog) in enumerate(self.files.items()):
            p = os.path.join(self.root, key)
            os.makedirs(os.path.dirname(p), exist_ok=True)
            if self.spelling is None:
                pr, lay = Printer(), None
            else:
                pr = Printer(Style(random.Random(self.spelling[0] + n), 0.45))
                lay = random.Random(self.spelling[1] + n) if self.spelling[1] is not None else None
            toks = pr.program(self._with_import_strings(key, prog))
            r = render(toks, lay)
            r.posmarks = pr.posmarks
            self.rendered[key] = r
            with open(p, "w", encoding="utf-8") as f:
                f.write(r.text)
        for lk in self.lookup_keys:
            os.makedirs(os.path.join(self.root, lk), exist_ok=True)
        return self

    def __exit__(self, *a):
        shutil.rmtree(self.root, ignore_errors=True)
        return False

    @property
    def main_path(self):
        return os.path.join(self.root, self.main_key)

    @property
    def main_text(self):
        return self.rendered[self.main_key].text

    @property
    def lookup(self):
        return [os.path.join(self.root, k) for k in self.lookup_keys]

    def _with_import_strings(self, key, prog):
        imps = []
        for kind, spec in prog.get("imports", []):
            if kind == "abs":
                imps.append(os.path.join(self.root, spec))
            else:
                imps.append(spec)
        return dict(prog, imports=imps)

    # -- my own resolver (documented rules)
    def resolve(self, key, imp):
        """key of the file an import statement of file `key` denotes, by the documented rules; None if missing"""
        kind, spec = imp
        if kind == "abs":
            return spec if spec in self.files else None
        if spec.startswith("./") or spec.startswith("../"):
            k = os.path.normpath(os.path.join(os.path.dirname(key), spec))
            return k if k in self.files else None
        for lk in self.lookup_keys:
            k = os.path.normpath(os.path.join(lk, spec))
            if k in self.files:
                return k
        return None

    def visible_macros(self, key, seen=()):
        """name -> (name, vars, body, file key) visible in file `key` (imports in order, own macros last); and the set of files read"""
        macros = {}
        read = set()
        prog = self.files[key]
        for imp in prog.get("imports", []):
            k = self.resolve(key, imp)
            if k is None or k in seen:
                raise KeyError(f"unresolvable import {imp} in {key}")
            read.add(k)
            m2, r2 = self.visible_macros(k, seen + (key,))
            macros.update(m2)
            read |= r2
        for m in prog.get("macros", []):
            macros[m[0]] = (m[0], m[1], m[2], key)
        return macros, read

    def describe(self):
        return {"main": self.main_key, "lookup": self.lookup_keys, "note": self.note,
                "files": {k: {"imports": v.get("imports", []), "macros": [m[0] for m in v.get("macros", [])]} for k, v in self.files.items()}}

    def texts(self):
        return {k: r.text for k, r in self.rendered.items()}


SHAPES = ["single", "chain", "diamond", "lookup_shadow", "nested_rel", "absolute", "mixed", "reimport", "sibling_prefix"]


def make_layout(rnd: random.Random, shape=None, nmacros=None, rich=True):
    """One random layout. Macros are generated callee-first; macro i may call macros j > i that are visible in its file."""
    shape = shape or rnd.choice(SHAPES)
    g = Gen(rnd, Cfg(depth=2, rich_params=rich, pos_p=0.15))
    n = nmacros or rnd.randint(2, 5)
    # file plan: which file defines which macro; imports between files
    if shape == "single":
        fkeys = ["proj/main.exps"]
        imports = {"proj/main.exps": []}
    elif shape == "chain":
        fkeys = ["proj/SCRIPT/main.exps", "proj/SCRIPT/lib/a.exps", "proj/SCRIPT/lib/sub/b.exps"]
        imports = {fkeys[0]: [("rel", "./lib/a.exps")], fkeys[1]: [("rel", "./sub/b.exps")], fkeys[2]: []}
    elif shape == "diamond":
        fkeys = ["proj/SCRIPT/main.exps", "proj/SCRIPT/a.exps", "proj/shared/b.exps", "proj/look1/c.exps"]
        imports = {fkeys[0]: [("rel", "./a.exps"), ("rel", "../shared/b.exps")], fkeys[1]: [("lookup", "c.exps")],
                   fkeys[2]: [("lookup", "c.exps")], fkeys[3]: []}
    elif shape == "lookup_shadow":
        fkeys = ["proj/SCRIPT/main.exps", "proj/look1/dir/m.exps", "proj/look2/dir/m.exps", "proj/look2/only2.exps"]
        imports = {fkeys[0]: [("lookup", "dir/m.exps"), ("lookup", "only2.exps")], fkeys[1]: [], fkeys[2]: [], fkeys[3]: []}
    elif shape == "nested_rel":
        fkeys = ["proj/SCRIPT/D01/main.exps", "proj/SCRIPT/common/a.exps", "proj/SCRIPT/common/deep/b.exps"]
        imports = {fkeys[0]: [("rel", "../common/a.exps")], fkeys[1]: [("rel", "./deep/b.exps")], fkeys[2]: []}
    elif shape == "reimport":
        # a file that has imports of its own is reached twice (directly and through another file): acyclic, must compile
        fkeys = ["proj/SCRIPT/main.exps", "proj/SCRIPT/lib/a.exps", "proj/SCRIPT/lib/b.exps", "proj/SCRIPT/lib/base.exps"]
        first, second = (("rel", "./lib/a.exps"), ("rel", "./lib/b.exps")) if rnd.random() < 0.5 else (("rel", "./lib/b.exps"), ("rel", "./lib/a.exps"))
        imports = {fkeys[0]: [first, second], fkeys[1]: [("rel", "./base.exps")], fkeys[2]: [("rel", "./a.exps")], fkeys[3]: []}
    elif shape == "sibling_prefix":
        # directories whose names are prefixes of each other (SCRIPT / SCRIPT_common / SCRIPT_common2): paths are not strings
        fkeys = ["proj/SCRIPT/main.exps", "proj/SCRIPT_common/a.exps", "proj/SCRIPT_common2/b.exps", "proj/SCRIPT/sub/c.exps"]
        imports = {fkeys[0]: [("rel", "../SCRIPT_common/a.exps"), ("rel", "./sub/c.exps")], fkeys[1]: [("rel", "../SCRIPT_common2/b.exps")], fkeys[2]: [], fkeys[3]: []}
    elif shape == "absolute":
        fkeys = ["proj/SCRIPT/main.exps", "elsewhere/abs/a.exps"]
        imports = {fkeys[0]: [("abs", "elsewhere/abs/a.exps")], fkeys[1]: []}
    else:
        fkeys = ["proj/SCRIPT/main.exps", "proj/SCRIPT/lib/a.exps", "proj/look2/b.exps", "elsewhere/c.exps"]
        imports = {fkeys[0]: [("rel", "./lib/a.exps"), ("lookup", "b.exps")], fkeys[1]: [("abs", "elsewhere/c.exps")], fkeys[2]: [], fkeys[3]: []}
    lookup_keys = ["proj/look1", "proj/look2"]
    main = fkeys[0]
    lay = Layout({k: {"imports": imports[k], "macros": [], "routines": []} for k in fkeys}, main, lookup_keys, note=shape)

    # which files see which files (transitively), by my resolver
    def sees(k, acc=None):
        acc = acc if acc is not None else set()
        for imp in imports[k]:
            t = lay.resolve(k, imp)
            if t is not None and t not in acc:
                acc.add(t)
                sees(t, acc)
        return acc

    vis = {k: sees(k) | {k} for k in fkeys}
    # assign macros to files; a macro can only call macros defined in files visible from its file
    # generate callee-first: macro index n-1 first
    placed = {}
    order = list(range(n))
    file_of = {}
    for i in order:
        file_of[i] = rnd.choice(fkeys)
    if shape == "lookup_shadow":
        # the shadowed file must not be used by anyone: it defines the same macro names with other bodies
        shadow = fkeys[2]
        for i in order:
            if file_of[i] == shadow:
                file_of[i] = fkeys[1]
    specs = {}
    shared_names = rnd.random() < 0.5
    for i in reversed(order):
        name = f"mac_{i}"
        nv = rnd.randint(0, 3)
        vars_ = [f"$q{k}" for k in rnd.sample(range(4), nv)] if shared_names else [f"$p{i}_{k}" for k in range(nv)]
        callable_ = [specs[j] for j in range(i + 1, n) if j in specs and file_of[j] in vis[file_of[i]]]
        g.c.macros = callable_
        g.c.macro_p = 0.3 if callable_ else 0.0
        g.labels_defined = []
        g.vars_in_scope = vars_
        g.in_macro = True
        g._lbl_macro = 0 if shared_names else None
        body = g.block(2, False, False, n=rnd.randint(1, 4), allow_term=False)
        if rnd.random() < 0.3:
            body.append(("ctrl", "return"))
        body = g.fix(body, list(g.labels_defined)) or [g.op()]
        specs[i] = (name, [g.passes_on_intlike(v, body) for v in vars_])
        placed[i] = (name, vars_, body)
    g.in_macro = False
    g.vars_in_scope = []
    # put macros into files in a random definition order
    for k in fkeys:
        ms = [placed[i] for i in order if file_of[i] == k]
        rnd.shuffle(ms)
        lay.files[k]["macros"] = ms
    if shape == "lookup_shadow":
        # same names, different bodies, in the directory that is searched second
        lay.files[fkeys[2]]["macros"] = [(m[0], m[1], [("op", f"shadow_{m[0]}", [], None)]) for m in lay.files[fkeys[1]]["macros"]]
    # routines of the main file call the macros visible there
    g.c.macros = [specs[i] for i in order if file_of[i] in vis[main]]
    g.c.macro_p = 0.35
    g.labels_defined = []
    prog = g._program(rnd.randint(1, 2))
    lay.files[main]["routines"] = prog["routines"]
    if lay.files[main]["macros"] and rnd.random() < 0.5:
        from vf.gen import interleave
        lay.files[main]["order"] = interleave(rnd, len(lay.files[main]["macros"]), len(prog["routines"]))
    if not any(_has_call(b) for _, b in prog["routines"] if b) and g.c.macros:
        h, b = lay.files[main]["routines"][0]
        lay.files[main]["routines"][0] = (h, [g.macro_call()] + list(b or []))
    return lay


def _has_call(ss):
    for s in ss:
        if s[0] == "macro":
            return True
        if s[0] == "if":
            if any(_has_call(b) for _, _, b in s[1]) or (s[2] and _has_call(s[2])):
                return True
        elif s[0] == "switch":
            if any(_has_call(b) for _, b in s[2]):
                return True
        elif s[0] in ("forever",):
            if _has_call(s[1]):
                return True
        elif s[0] == "while":
            if _has_call(s[3]):
                return True
        elif s[0] == "for":
            if _has_call(s[4]):
                return True
    return False


def macro_workload(shard, only=None):
    """yields (name, layout); layout.gen records how to regenerate it (replay)"""
    rnd = random.Random(shard["seed"])
    for i in range(shard["n"]):
        shape = SHAPES[i % len(SHAPES)]
        sub = rnd.randrange(1 << 40)
        if only is not None and i != only:
            continue
        lay = make_layout(random.Random(sub), shape, rich=shard.get("rich", True))
        lay.gen = {"seed": shard["seed"], "n": shard["n"], "index": i, "rich": shard.get("rich", True)}
        yield f"{shape}{i}", lay


def permutations_of_single_file(lay: Layout, rnd: random.Random, limit=120):
    """All (<= limit) definition orders of the macros of a single-file layout."""
    key = lay.main_key
    ms = lay.files[key]["macros"]
    perms = list(itertools.permutations(range(len(ms))))
    if len(perms) > limit:
        perms = rnd.sample(perms, limit)
    for p in perms:
        files = dict(lay.files)
        files[key] = dict(files[key], macros=[ms[i] for i in p])
        yield Layout(files, lay.main_key, lay.lookup_keys, note=lay.note + ":perm")
