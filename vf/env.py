"""Bootstrap: make the checkout-relative dependencies importable and make sure the code under
observation is the working tree of the repository (VERIF_REPO, default /repo)."""
from __future__ import annotations

import logging
import os
import subprocess
import sys
import warnings

VERIF = os.path.dirname(os.path.dirname(os.path.abspath(__file__)))
REPO = os.environ.get("VERIF_REPO", "/repo")
DEPS = os.path.join(VERIF, ".deps")
PY = "/venv/bin/python"
WHEELS = "/opt/veriftools/wheels"

PPL = "$PERFORMANCE_PROGRESS_LIST"
DM_NAMES = ("DMODE_CLOSED", "DMODE_OPEN", "DMODE_REQUEST", "DMODE_OPEN_AND_REQUEST")


def ensure_deps() -> None:
    """Install icontract / jsonschema into /verif/.deps from the offline wheelhouse when missing."""
    marker = os.path.join(DEPS, "icontract")
    marker2 = os.path.join(DEPS, "jsonschema")
    if os.path.isdir(marker) and os.path.isdir(marker2):
        return
    os.makedirs(DEPS, exist_ok=True)
    cmd = [PY, "-m", "pip", "install", "-q", "--no-index", "--find-links", WHEELS, "--target", DEPS,
           "--upgrade", "icontract", "jsonschema"]
    env = dict(os.environ, PIP_NO_INDEX="1", PIP_DISABLE_PIP_VERSION_CHECK="1")
    r = subprocess.run(cmd, env=env, stdout=subprocess.PIPE, stderr=subprocess.STDOUT, text=True)
    if r.returncode != 0:
        print(r.stdout, file=sys.stderr)
        raise SystemExit("setup: could not install icontract/jsonschema from the offline wheelhouse")


def setup_paths() -> None:
    """sys.path: repository working tree first, .deps last (so the repo's own deps win)."""
    if REPO not in sys.path:
        sys.path.insert(0, REPO)
    if VERIF not in sys.path:
        sys.path.insert(1, VERIF)
    if DEPS not in sys.path:
        sys.path.append(DEPS)


def quiet() -> None:
    warnings.simplefilter("ignore")
    logging.disable(logging.CRITICAL)


def check_repo_import() -> str:
    """Returns the path explorerscript was imported from; raises if it is not the tree under test."""
    import explorerscript

    p = os.path.realpath(explorerscript.__file__)
    if not p.startswith(os.path.realpath(REPO) + os.sep):
        raise RuntimeError(f"explorerscript imported from {p}, expected under {REPO}")
    return p


def worker_env(seed: int) -> dict:
    env = dict(os.environ)
    env["PYTHONPATH"] = REPO + os.pathsep + VERIF
    env["PYTHONHASHSEED"] = "0"
    env["VERIF_REPO"] = REPO
    env["VERIF_SEED"] = str(seed)
    env["PYTHONDONTWRITEBYTECODE"] = "1"
    env["PIP_NO_INDEX"] = "1"
    return env
