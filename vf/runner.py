"""Sharded execution of a property's workload in subprocess workers, aggregation, known-finding
classification, replay files, evidence files, verdict and exit status.

Exit status: 0 held on everything explored (known findings are printed, not counted)
             1 at least one violation that no open known finding explains (VIOLATION lines printed)
             2 harness error
             3 inconclusive: a reach floor was not met / workers died outside of a monitored call
"""
from __future__ import annotations

import hashlib
import importlib
import json
import os
import subprocess
import sys
import tempfile
import time

from vf import env, findings

MAX_PAR = int(os.environ.get("VERIF_JOBS", "16"))


def sha(x) -> str:
    if not isinstance(x, str):
        x = json.dumps(x, sort_keys=True, default=repr, ensure_ascii=True)
    return hashlib.sha256(x.encode("utf-8", "surrogatepass")).hexdigest()[:16]


class Acc:
    """Per-worker accumulator. Everything it holds is written to the shard's output file at the end;
    the case announced last is written before the case runs (call event first, return event after)."""

    def __init__(self, out_path, max_samples=6, max_viol=40):
        self.out_path = out_path
        self.announce_path = out_path + ".cur"
        self.evaluations = 0
        self.hashes = set()  # distinct non-trivial cases
        self.counters = {}
        self.samples = []
        self.violations = []
        self.inconclusive = []
        self.max_samples = max_samples
        self.max_viol = max_viol
        self.viol_total = 0
        self.sets = {}

    def announce(self, case_id, inp=None):
        with open(self.announce_path, "w") as f:
            json.dump({"case": case_id, "input": inp}, f, default=repr)

    def count(self, key, n=1):
        self.counters[key] = self.counters.get(key, 0) + n

    def maxc(self, key, v):
        if v > self.counters.get(key, 0):
            self.counters[key] = v

    def add_to_set(self, name, item):
        self.sets.setdefault(name, set()).add(item)

    def case(self, content, nontrivial=True):
        self.evaluations += 1
        if nontrivial:
            self.hashes.add(sha(content))

    def sample(self, s, force=False):
        if len(self.samples) < self.max_samples or force:
            self.samples.append(s)

    def violation(self, sig, witness, inp, kind=None):
        """sig: short mechanism signature; witness: what the monitor observed; inp: replayable input."""
        self.viol_total += 1
        self.count("violations_raw")
        if len(self.violations) < self.max_viol or not any(v["sig"] == sig for v in self.violations):
            self.violations.append({"sig": sig, "witness": witness, "input": inp, "kind": kind})

    def inconc(self, reason, detail=None):
        self.count("inconclusive:" + reason)
        if len(self.inconclusive) < 10:
            self.inconclusive.append({"reason": reason, "detail": detail})

    def dump(self):
        data = {
            "evaluations": self.evaluations, "hashes": sorted(self.hashes), "counters": self.counters,
            "samples": self.samples, "violations": self.violations, "inconclusive": self.inconclusive,
            "viol_total": self.viol_total, "sets": {k: sorted(v, key=repr) for k, v in self.sets.items()},
            "done": True,
        }
        tmp = self.out_path + ".tmp"
        with open(tmp, "w") as f:
            json.dump(data, f, default=repr, ensure_ascii=True)
        os.replace(tmp, self.out_path)


def worker_main(argv):
    """python -m vf.runner worker <PID> <shard.json> <out.json>"""
    pid, shard_path, out_path = argv
    import faulthandler

    faulthandler.enable()
    try:
        import resource

        lim = int(os.environ.get("VERIF_WORKER_MEM_GB", "4")) << 30
        resource.setrlimit(resource.RLIMIT_AS, (lim, lim))
    except Exception:
        pass
    env.setup_paths()
    env.quiet()
    env.check_repo_import()
    with open(shard_path) as f:
        shard = json.load(f)
    mod = importlib.import_module(f"vf.props.{pid.lower()}")
    acc = Acc(out_path)
    mod.run_shard(shard, acc)
    acc.dump()


def _merge(outs):
    agg = {"evaluations": 0, "hashes": set(), "counters": {}, "samples": [], "violations": [], "inconclusive": [],
           "viol_total": 0, "sets": {}}
    for o in outs:
        agg["evaluations"] += o["evaluations"]
        agg["hashes"].update(o["hashes"])
        for k, v in o["counters"].items():
            if k.startswith("max:"):
                agg["counters"][k] = max(agg["counters"].get(k, 0), v)
            else:
                agg["counters"][k] = agg["counters"].get(k, 0) + v
        agg["samples"].extend(o["samples"])
        agg["violations"].extend(o["violations"])
        agg["inconclusive"].extend(o["inconclusive"])
        agg["viol_total"] += o["viol_total"]
        for k, v in o.get("sets", {}).items():
            agg["sets"].setdefault(k, set()).update(tuple(x) if isinstance(x, list) else x for x in v)
    return agg


def run_shards(pid, shards, timeout):
    """Runs shards in parallel subprocesses. Returns (outputs, crashes) ."""
    tmpdir = tempfile.mkdtemp(prefix=f"verif_{pid}_")
    procs = []
    pending = list(enumerate(shards))
    outs = []
    crashes = []
    running = []
    try:
        while pending or running:
            while pending and len(running) < MAX_PAR:
                i, sh = pending.pop(0)
                sp = os.path.join(tmpdir, f"shard{i}.json")
                op = os.path.join(tmpdir, f"out{i}.json")
                with open(sp, "w") as f:
                    json.dump(sh, f)
                errp = open(os.path.join(tmpdir, f"err{i}.txt"), "w")
                p = subprocess.Popen(
                    [env.PY, "-X", "faulthandler", "-m", "vf.runner", "worker", pid, sp, op],
                    cwd=env.VERIF, env=env.worker_env(sh.get("seed", 0)), stdout=errp, stderr=subprocess.STDOUT,
                )
                running.append((i, sh, p, op, time.time(), errp))
            time.sleep(0.05)
            still = []
            for i, sh, p, op, t0, errp in running:
                rc = p.poll()
                if rc is None:
                    if time.time() - t0 > timeout:
                        p.kill()
                        p.wait()
                        errp.close()
                        crashes.append(_crash(i, sh, op, "watchdog", tmpdir))
                    else:
                        still.append((i, sh, p, op, t0, errp))
                    continue
                errp.close()
                if rc == 0 and os.path.exists(op):
                    with open(op) as f:
                        outs.append(json.load(f))
                else:
                    crashes.append(_crash(i, sh, op, f"exit {rc}", tmpdir))
            running = still
    finally:
        for _, _, p, _, _, errp in running:
            p.kill()
        import shutil

        shutil.rmtree(tmpdir, ignore_errors=True)
    return outs, crashes


def _crash(i, sh, op, why, tmpdir):
    cur = None
    try:
        with open(op + ".cur") as f:
            cur = json.load(f)
    except Exception:
        pass
    err = ""
    try:
        with open(os.path.join(tmpdir, f"err{i}.txt")) as f:
            err = f.read()[-3000:]
    except Exception:
        pass
    return {"shard": sh, "why": why, "current_case": cur, "stderr_tail": err}


def validate_evidence(ev):
    import jsonschema

    with open("/root/.vp/EVIDENCE.schema.json") as f:
        schema = json.load(f)
    jsonschema.validate(ev, schema)


def write_evidence(pid, ev):
    # (VERIF_OUT: used when the checks are pointed at a scratch tree with a seeded change, so that the evidence of the
    # real tree is not overwritten)
    out = os.environ.get("VERIF_OUT") or env.VERIF
    os.makedirs(os.path.join(out, "evidence"), exist_ok=True)
    path = os.path.join(out, "evidence", f"{pid}.json")
    try:
        validate_evidence(ev)
    except FileNotFoundError:
        pass
    with open(path, "w") as f:
        json.dump(ev, f, indent=1, default=repr, ensure_ascii=True)
    return path


def write_replay(pid, v):
    d = os.path.join(os.environ.get("VERIF_OUT") or env.VERIF, "replays", pid)
    os.makedirs(d, exist_ok=True)
    path = os.path.join(d, sha({"sig": v["sig"], "input": v["input"]}) + ".json")
    with open(path, "w") as f:
        json.dump({"property": pid, **v}, f, indent=1, default=repr, ensure_ascii=True)
    return path


def main(argv=None):
    import argparse

    ap = argparse.ArgumentParser()
    ap.add_argument("pid")
    ap.add_argument("--tier", default=os.environ.get("VERIF_TIER", "quick"), choices=["quick", "thorough"])
    ap.add_argument("--seed", type=int, default=int(os.environ.get("VERIF_SEED", "0") or 0))
    ap.add_argument("--replay", default=None)
    args = ap.parse_args(argv)
    pid = args.pid.upper()
    t0 = time.time()
    env.ensure_deps()
    env.setup_paths()
    env.quiet()
    try:
        where = env.check_repo_import()
    except Exception as e:
        print(f"INCONCLUSIVE property={pid} reason=repo-import {e}")
        return 3
    mod = importlib.import_module(f"vf.props.{pid.lower()}")

    if args.replay:
        with open(args.replay) as f:
            data = json.load(f)
        acc = Acc(os.devnull)
        mod.replay(data["input"], acc)
        bad = 0
        for v in acc.violations:
            fid = findings.classify(pid, v)
            if fid:
                print(f"KNOWN-FINDING: property={pid} {fid}")
            else:
                bad += 1
                print(f"VIOLATION property={pid} replay={args.replay}")
                print("  sig:", v["sig"])
                print("  witness:", json.dumps(v["witness"], default=repr, ensure_ascii=True)[:2000])
        if not acc.violations:
            print(f"replay: no violation reproduced ({acc.evaluations} evaluations)")
        return 1 if bad else 0

    shards = mod.shards(args.tier, args.seed)
    timeout = getattr(mod, "TIMEOUT", {"quick": 900, "thorough": 5400})[args.tier]
    outs, crashes = run_shards(pid, shards, timeout)
    agg = _merge(outs)

    # crashes: a worker that died while the implementation was running an announced case
    crash_is_violation = getattr(mod, "CRASH_IS_VIOLATION", False)
    harness_errors = []
    for c in crashes:
        if crash_is_violation and c["current_case"] is not None and c["why"] != "watchdog" and "Traceback" not in c["stderr_tail"]:
            agg["violations"].append({
                "sig": "did-not-answer:" + c["why"], "witness": {"stderr": c["stderr_tail"][-800:]},
                "input": c["current_case"].get("input"), "kind": "crash"})
            agg["viol_total"] += 1
        else:
            harness_errors.append(c)

    # classify
    known_hits = {}
    unknown = []
    seen_sigs = set()
    for v in agg["violations"]:
        fid = findings.classify(pid, v)
        if fid:
            known_hits[fid] = known_hits.get(fid, 0) + 1
        else:
            if v["sig"] in seen_sigs:
                continue
            seen_sigs.add(v["sig"])
            unknown.append(v)

    cov, floors_ok, floor_msgs = mod.summarize(agg, args.tier)
    wall = time.time() - t0
    samples = agg["samples"][:8]
    coverage = {
        "evaluations": agg["evaluations"],
        "distinct_nontrivial": len(agg["hashes"]),
        "samples": samples if samples else [{"note": "no samples recorded"}],
        "counters": {k: v for k, v in sorted(agg["counters"].items())},
        "known_findings_hit": known_hits,
        "inconclusive": agg["inconclusive"][:10],
        "worker_failures": len(harness_errors),
        "shards": len(shards),
        "observed_sets": {k: sorted(v, key=repr)[:30] for k, v in agg["sets"].items()},
        "repo_imported_from": where,
    }
    coverage.update(cov)
    ev = {
        "property_id": pid, "tier": args.tier, "seed": args.seed, "level": mod.LEVEL, "coverage": coverage,
        "assumptions": getattr(mod, "ASSUMPTIONS", []), "wall_s": round(wall, 2), "violations": len(unknown),
    }
    try:
        path = write_evidence(pid, ev)
    except Exception as e:  # schema violation is a harness error
        print(f"HARNESS-ERROR evidence does not validate: {e}")
        return 2

    for fid, n in sorted(known_hits.items()):
        print(f"KNOWN-FINDING: property={pid} {fid} ({n} witnesses this run)")
    rc = 0
    if unknown:
        for v in unknown[:20]:
            rp = write_replay(pid, v)
            print(f"VIOLATION property={pid} replay={rp}")
            print("  sig:", v["sig"])
        rc = 1
    if harness_errors:
        for c in harness_errors[:5]:
            print(f"WORKER-FAILURE property={pid} {c['why']} case={c['current_case']}")
            print(c["stderr_tail"][-1500:])
        if rc == 0:
            rc = 2 if any("Traceback" in c["stderr_tail"] for c in harness_errors) else 3
    if rc == 0 and not floors_ok:
        for m in floor_msgs:
            print(f"INCONCLUSIVE property={pid} {m}")
        rc = 3
    print(f"{pid} tier={args.tier} seed={args.seed} evaluations={agg['evaluations']} distinct_nontrivial={len(agg['hashes'])} "
          f"violations={len(unknown)} known={sum(known_hits.values())} wall={wall:.1f}s evidence={path}")
    return rc


if __name__ == "__main__":
    if len(sys.argv) > 1 and sys.argv[1] == "worker":
        worker_main(sys.argv[2:])
    else:
        sys.exit(main())
